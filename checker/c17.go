package main

import (
	"fmt"
	"go/token"
	"go/types"
	"sort"
	"strings"

	"golang.org/x/tools/go/ssa"
)

func init() {
	register("C17", checkC17)
	register("C18", checkC18)
	register("C19", checkC19)
}

const configPkg = "reservoir/config"

type cfgProp struct {
	path string // dotted Go field path from Config, e.g. Cache.File.Dir
	json string
	T    types.Type
	v    *types.Var
}

// configProps enumerates every ConfigProp[T] field of the config.Config tree.
func configProps(c *Ctx) []cfgProp {
	var out []cfgProp
	root := c.LookupType(configPkg, "Config")
	if root == nil {
		return nil
	}
	var walk func(t types.Type, path, jpath string)
	walk = func(t types.Type, path, jpath string) {
		st, ok := t.Underlying().(*types.Struct)
		if !ok {
			return
		}
		for i := 0; i < st.NumFields(); i++ {
			f := st.Field(i)
			tag := st.Tag(i)
			j := ""
			if k := strings.Index(tag, `json:"`); k >= 0 {
				j = tag[k+6:]
				j = j[:strings.Index(j, `"`)]
			}
			p := f.Name()
			if path != "" {
				p = path + "." + f.Name()
			}
			jp := j
			if jpath != "" {
				jp = jpath + "." + j
			}
			if nt, ok := f.Type().(*types.Named); ok && nt.Obj().Name() == "ConfigProp" && nt.Obj().Pkg().Path() == configPkg {
				out = append(out, cfgProp{p, jp, nt.TypeArgs().At(0), f})
				continue
			}
			if _, ok := f.Type().Underlying().(*types.Struct); ok {
				walk(f.Type(), p, jp)
			}
		}
	}
	walk(root, "", "")
	return out
}

func hasMethod(t types.Type, name string) bool {
	for _, tt := range []types.Type{t, types.NewPointer(t)} {
		ms := types.NewMethodSet(tt)
		for i := 0; i < ms.Len(); i++ {
			if ms.At(i).Obj().Name() == name {
				return true
			}
		}
	}
	return false
}

func checkC17(c *Ctx, r *Report) {
	r.Decided = []string{
		"R1 every persisted value type (each ConfigProp[T] of the Config tree) is a JSON basic type or has both MarshalJSON and UnmarshalJSON",
		"R2 the module-defined serialiser is lossless by construction: the unit ByteSize.String prints with is selected under a divisibility test (value % unit == 0) on the same value",
		"R3 the size reader can actually reach every rejection it declares (no branch on a loop-carried flag that is constant false — the stated-belief contradiction of a `break` right after setting it), succeeds only after the whole string is consumed, requires a digit and guards overflow",
		"R4 override discipline: persistence never reads the override; Read prefers the override; the update path never writes the override (staging copies the cell and uses SetNoClear); overrides are written only from ConfigProp.Overwrite, called only from the flag handlers",
		"R5 load is strict: DisallowUnknownFields on the decoder it decodes with, and verify() dominates its success return",
		"R6 what is written into the file that is renamed over the config file is encoding/json's encoding of a Config value on every way the bytes reach that write (not a document that went through map[string]any)",
	}
	r.NotDec = []string{"equality of values after a round trip for all values (value semantics)", "time.Duration / slog.Level text forms (stdlib, trusted)", "all size strings"}
	r.Exhaust = true
	li := BuildLocks(c)

	// ---- R1
	props := configProps(c)
	for _, p := range props {
		key := "config." + p.path + " : " + types.TypeString(p.T, func(pk *types.Package) string { return pk.Name() })
		_, basic := p.T.Underlying().(*types.Basic)
		m, u := hasMethod(p.T, "MarshalJSON"), hasMethod(p.T, "UnmarshalJSON")
		switch {
		case m && u:
			r.OkT("C17.R1", key, "-", "has MarshalJSON and UnmarshalJSON")
		case basic && !m && !u:
			r.OkT("C17.R1", key, "-", "JSON basic type")
		default:
			r.Fail("C17.R1", key, "-", fmt.Sprintf("persisted type has MarshalJSON=%v UnmarshalJSON=%v: it cannot be written and read back through the same textual form", m, u))
		}
	}
	r.Floor("C17.R1", len(props), 20, "ConfigProp fields in the Config tree")

	// ---- R2
	for _, f := range c.FuncsNamed("(reservoir/utils/bytesize.ByteSize).String") {
		ts := findCall(f, "(reservoir/utils/bytesize.ByteSize).ToString")
		if ts == nil {
			r.Undecided("C17.R2", "ByteSize.String", c.Pos(f.Pos()), "String no longer goes through ToString; the lossless-unit rule has no anchor")
			continue
		}
		sel, ok := unconv(ts.Call.Args[1]).(*ssa.Call)
		var selFn *ssa.Function
		if ok {
			selFn = staticCallee(sel)
		}
		if selFn == nil || selFn.Blocks == nil {
			r.Fail("C17.R2", "ByteSize.String picks an exact unit", c.InstrPos(ts), "the unit printed is not chosen by a module function that can be checked for a divisibility test")
			continue
		}
		// the selector may hand the work to a generic "largest unit accepted by a filter" helper:
		// follow the tail call, remembering the filter closures it passes
		filters := map[*ssa.Parameter]*ssa.Function{}
		entry := sel // the call through which the selector body under examination is entered
		for depth := 0; depth < 2; depth++ {
			var only *ssa.Return
			nr := 0
			eachInstr(selFn, func(in ssa.Instruction) {
				if ret, ok := in.(*ssa.Return); ok && !isRecoverReturn(ret) {
					only = ret
					nr++
				}
			})
			if nr != 1 || len(only.Results) != 1 {
				break
			}
			call, ok := only.Results[0].(*ssa.Call)
			if !ok {
				break
			}
			g := staticCallee(call)
			if g == nil || g.Blocks == nil || originPkgPath(g) != originPkgPath(selFn) || len(call.Call.Args) == 0 || len(selFn.Params) == 0 {
				break
			}
			// the value being printed reaches the helper as its receiver / an argument, or captured by the filter closure(s)
			passes := false
			for _, a := range call.Call.Args {
				if cellValue(a) == ssa.Value(selFn.Params[0]) {
					passes = true
				}
				if mc, ok := a.(*ssa.MakeClosure); ok {
					for _, bnd := range mc.Bindings {
						if cellValue(bnd) == ssa.Value(selFn.Params[0]) {
							passes = true
						}
					}
				}
			}
			if !passes {
				break
			}
			nf := map[*ssa.Parameter]*ssa.Function{}
			for i, a := range call.Call.Args {
				if mc, ok := a.(*ssa.MakeClosure); ok && i < len(g.Params) {
					nf[g.Params[i]] = mc.Fn.(*ssa.Function)
					// the closure must test the value being printed: its captured variable is the receiver
					for _, bnd := range mc.Bindings {
						if cellValue(bnd) != ssa.Value(selFn.Params[0]) {
							delete(nf, g.Params[i])
						}
					}
				}
			}
			selFn, filters, entry = g, nf, call
		}
		// does the filter closure accept exactly on captured % unit == 0 ?
		isDivFilter := func(cl *ssa.Function) bool {
			if len(cl.Params) != 1 || len(cl.FreeVars) != 1 {
				return false
			}
			// accepts only if captured % unit == 0: every returned value is that comparison, the constant false, or a
			// merge / conjunction of such (b >= unit && b%unit == 0)
			var impliesDiv func(v ssa.Value, d int) bool
			impliesDiv = func(v ssa.Value, d int) bool {
				if d > 6 {
					return false
				}
				if b, isC := constBool(v); isC {
					return !b
				}
				switch x := v.(type) {
				case *ssa.Phi:
					for _, e := range x.Edges {
						if !impliesDiv(e, d+1) {
							return false
						}
					}
					return len(x.Edges) > 0
				case *ssa.BinOp:
					if x.Op == token.AND {
						return impliesDiv(x.X, d+1) || impliesDiv(x.Y, d+1)
					}
					if x.Op != token.EQL {
						return false
					}
					rem, isR := x.X.(*ssa.BinOp)
					k, isC := constInt(x.Y)
					if !isR || rem.Op != token.REM || !isC || k != 0 || rem.Y != ssa.Value(cl.Params[0]) {
						return false
					}
					return derivesFrom(rem.X, func(v ssa.Value) bool { return v == ssa.Value(cl.FreeVars[0]) })
				}
				return false
			}
			ok, nret := true, 0
			eachInstr(cl, func(in ssa.Instruction) {
				ret, isRet := in.(*ssa.Return)
				if !isRet {
					return
				}
				nret++
				if len(ret.Results) != 1 || !impliesDiv(ret.Results[0], 0) {
					ok = false
				}
			})
			return ok && nret > 0
		}
		// every update of the returned rune (phi edges that are not the initial constant) happens under value % unit == 0
		okAll, n := true, 0
		eachInstr(selFn, func(in ssa.Instruction) {
			ret, isRet := in.(*ssa.Return)
			if !isRet {
				return
			}
			phi, isPhi := ret.Results[0].(*ssa.Phi)
			if !isPhi {
				okAll = false
				return
			}
			var visit func(p *ssa.Phi, seen map[*ssa.Phi]bool)
			visit = func(p *ssa.Phi, seen map[*ssa.Phi]bool) {
				if seen[p] {
					return
				}
				seen[p] = true
				for i, e := range p.Edges {
					if _, isC := e.(*ssa.Const); isC {
						continue // initial 'B'
					}
					if p2, ok := e.(*ssa.Phi); ok {
						visit(p2, seen)
						continue
					}
					n++
					pred := p.Block().Preds[i]
					last := pred.Instrs[len(pred.Instrs)-1]
					fs := factStrs(selFn, last)
					div := false
					for _, fc := range factsAt(selFn, last) {
						if call, ok := fc.cond.(*ssa.Call); ok && fc.truth {
							if prm, ok := call.Call.Value.(*ssa.Parameter); ok && filters[prm] != nil && isDivFilter(filters[prm]) {
								div = true
							}
						}
					}
					for k := range fs {
						if strings.Contains(k, "$b%") && (strings.HasSuffix(k, "!=0=false") || strings.HasSuffix(k, "==0=true")) {
							div = true
						}
					}
					if !div && selFn == staticCallee(entry) {
						// the divisibility test may be switched on by a flag parameter that String() passes as a constant
						// (b.largestUnit(true)): with the edges that contradict the constant arguments removed, and the
						// "divisible" edges removed as well, the selection must be unreachable
						var flt []edgeFilter
						for ai, a := range callArgs(entry) {
							if ai >= len(selFn.Params) {
								break
							}
							if bv, isC := constBool(a); isC {
								flt = append(flt, pruneTruth(selFn, selFn.Params[ai], bv))
							}
						}
						divisibleEdge := func(b *ssa.BasicBlock, si int) bool {
							iff, ok := b.Instrs[len(b.Instrs)-1].(*ssa.If)
							if !ok {
								return false
							}
							bo, ok := iff.Cond.(*ssa.BinOp)
							if !ok || (bo.Op != token.EQL && bo.Op != token.NEQ) {
								return false
							}
							rem, ok := unconvNum(bo.X).(*ssa.BinOp)
							k, isC := constInt(bo.Y)
							if !ok || rem.Op != token.REM || !isC || k != 0 {
								return false
							}
							if !derivesFrom(rem.X, func(v ssa.Value) bool { return len(selFn.Params) > 0 && v == ssa.Value(selFn.Params[0]) }) {
								return false
							}
							// the edge on which value % unit == 0
							if bo.Op == token.EQL {
								return si == 0
							}
							return si == 1
						}
						if len(flt) > 0 {
							flt = append(flt, divisibleEdge)
							reach := walkFrom(pos{selFn.Blocks[0], 0}, nil, func(in ssa.Instruction) bool { return in == last }, orFilter(flt...))
							if len(reach) == 0 {
								div = true
							}
						}
					}
					if !div {
						okAll = false
					}
				}
			}
			visit(phi, map[*ssa.Phi]bool{})
		})
		r.Check(okAll && n > 0, "C17.R2", "ByteSize.String picks an exact unit", c.InstrPos(ts), fmt.Sprintf("%d unit selections, each under b %% unit == 0", n), "the unit ByteSize prints with is chosen without a divisibility test: 1536 is written as \"1K\" and reads back as 1024")
		// and ToString divides by that same unit
		for _, tf := range c.FuncsNamed("(reservoir/utils/bytesize.ByteSize).ToString") {
			okDiv := false
			for _, g := range pkgGroup(li, tf) {
				eachInstr(g, func(in ssa.Instruction) {
					bo, isB := in.(*ssa.BinOp)
					if !isB || bo.Op != token.QUO {
						return
					}
					if g == tf {
						if derivesFrom(bo.X, func(v ssa.Value) bool { return v == ssa.Value(tf.Params[0]) }) {
							okDiv = true
						}
						return
					}
					// in a helper (b.Convert(unit)): the dividend is the helper's receiver and ToString passes its own
					for _, cs := range li.Callers[g] {
						call, okc := asCall(cs.in)
						if !okc || cs.in.Parent() != tf || len(g.Params) == 0 {
							continue
						}
						a := callArgs(call)
						if len(a) > 0 && cellValue(a[0]) == ssa.Value(tf.Params[0]) && derivesFrom(bo.X, func(v ssa.Value) bool { return v == ssa.Value(g.Params[0]) }) {
							okDiv = true
						}
					}
				})
			}
			r.Check(okDiv, "C17.R2", "ToString prints value / unit", c.Pos(tf.Pos()), "quotient of the receiver", "ToString no longer prints receiver / unit")
		}
	}
	// Marshal goes through String, Unmarshal through Parse
	for _, mf := range c.FuncsNamed("(reservoir/utils/bytesize.ByteSize).MarshalJSON") {
		r.Check(findCall(mf, "(reservoir/utils/bytesize.ByteSize).String") != nil, "C17.R2", "ByteSize.MarshalJSON writes String()", c.Pos(mf.Pos()), "uses the lossless String form", "MarshalJSON does not use String()")
	}
	for _, uf := range c.FuncsNamed("(*reservoir/utils/bytesize.ByteSize).UnmarshalJSON") {
		r.Check(findCall(uf, "reservoir/utils/bytesize.Parse") != nil, "C17.R2", "ByteSize.UnmarshalJSON reads through Parse", c.Pos(uf.Pos()), "uses Parse", "UnmarshalJSON does not use Parse()")
	}

	// ---- R3
	for _, f := range c.FuncsNamed("reservoir/utils/bytesize.Parse") {
		nFlag := 0
		for _, b := range f.Blocks {
			iff, ok := b.Instrs[len(b.Instrs)-1].(*ssa.If)
			if !ok {
				continue
			}
			cv, _ := stripNot(iff.Cond)
			phi, ok := cv.(*ssa.Phi)
			if !ok {
				continue
			}
			if bt, ok := phi.Type().Underlying().(*types.Basic); !ok || bt.Kind() != types.Bool {
				continue
			}
			nFlag++
			var vals []string
			constOnly, sawTrue, sawFalse := true, false, false
			seen := map[*ssa.Phi]bool{}
			var visit func(p *ssa.Phi)
			visit = func(p *ssa.Phi) {
				if seen[p] {
					return
				}
				seen[p] = true
				for _, e := range p.Edges {
					if bv, isC := constBool(e); isC {
						if bv {
							sawTrue = true
						} else {
							sawFalse = true
						}
						vals = append(vals, fmt.Sprint(bv))
					} else if p2, ok := e.(*ssa.Phi); ok {
						visit(p2)
					} else {
						constOnly = false
					}
				}
			}
			visit(phi)
			dead := constOnly && !(sawTrue && sawFalse)
			r.Check(!dead, "C17.R3", "Parse: branch on flag "+phi.Comment+" is live", c.InstrPos(iff), "the flag can be both true and false when tested", "the rejection guarded by '"+phi.Comment+"' can never fire: the flag is always "+strings.Join(uniq(vals), "/")+" when tested (the loop leaves right after setting it), so trailing characters after the unit are accepted")
		}
		r.Floor("C17.R3", nFlag, 2, "flag-guarded rejections in Parse")
		// "means digits times unit": the digits are accumulated without wrapping around
		nAccB := checkAccumulators(c, r, li, "C17.R3", func(pk string) bool { return pk == "reservoir/utils/bytesize" })
		r.Floor("C17.R3", nAccB, 1, "decimal accumulators in package bytesize")
		// success return only after the whole string was consumed and a digit was seen
		eachInstr(f, func(in ssa.Instruction) {
			ret, ok := in.(*ssa.Return)
			if !ok || !isNilConst(ret.Results[1]) {
				return
			}
			fs := factStrs(f, ret)
			exhausted := false
			for k := range fs {
				if strings.HasSuffix(k, "#0=false") { // range iterator's ok == false
					exhausted = true
				}
			}
			r.Check(exhausted, "C17.R3", "Parse succeeds only after consuming the whole string", c.InstrPos(ret), "success return is on the loop-exhausted edge", "Parse can succeed from inside the loop (break): characters after the unit are never looked at")
			r.Check(hasFact(fs, "phi:foundDigit", true), "C17.R3", "Parse requires at least one digit", c.InstrPos(ret), "foundDigit == true", "a unit without digits (\"K\") is accepted as 0")
			// ... and a unit: the documented form is digits followed by one unit letter; a bare number is not a size string
			r.Check(hasFact(fs, "phi:foundUnit", true), "C17.R3", "Parse requires a unit", c.InstrPos(ret), "foundUnit == true", "a number without a unit (\"1024\", \"0\") is accepted as that many bytes although the documented form is digits plus one of B K M G T")
			guard := false
			for k := range fs {
				if strings.Contains(k, "phi:num>") && strings.HasSuffix(k, "=false") {
					guard = true
				}
			}
			r.Check(guard, "C17.R3", "Parse guards num × unit against overflow", c.InstrPos(ret), "product bounded before multiplying", "num * multiplier can overflow int64 silently")
		})
	}

	// ---- R4
	owField := c.FieldVar(configPkg, "overwritable", "overwritten")
	if owField == nil {
		r.Undecided("C17.R4", "overwritable.overwritten", "-", "unresolved anchor")
	} else {
		readers, writers := map[string]bool{}, map[string]bool{}
		for _, f := range li.Fns {
			if originPkgPath(f) != configPkg {
				continue
			}
			eachInstr(f, func(in ssa.Instruction) {
				var fa *ssa.FieldAddr
				switch x := in.(type) {
				case *ssa.FieldAddr:
					fa = x
				case *ssa.Field:
					if fv, _, ok := fieldOf(x); ok && originVar(fv) == owField {
						readers[fnKey(f)] = true
					}
					return
				default:
					return
				}
				fv, _, ok := fieldOf(fa)
				if !ok || originVar(fv) != owField {
					return
				}
				for _, ref := range *fa.Referrers() {
					switch y := ref.(type) {
					case *ssa.Store:
						if y.Addr == ssa.Value(fa) {
							writers[fnKey(f)] = true
						}
					default:
						readers[fnKey(f)] = true
					}
				}
			})
		}
		wl := keysOf(writers)
		allowedW := map[string]bool{"(*reservoir/config.overwritable).Overwrite": true, "(*reservoir/config.overwritable).ClearOverwrite": true, "reservoir/config.NewOverwritable": true}
		var badW []string
		for _, w := range wl {
			if !allowedW[w] {
				badW = append(badW, w)
			}
		}
		r.Check(len(badW) == 0 && len(wl) > 0, "C17.R4", "the override cell is written only by Overwrite/ClearOverwrite/constructor", "-", strings.Join(wl, ", "), "the override is written by "+strings.Join(badW, ", "))
		// (a) persistence never reads the override
		var persistRoots []*ssa.Function
		persistRoots = append(persistRoots, c.FuncsNamed("(*"+configPkg+".Config).persist")...)
		for _, f := range li.Fns {
			if originPkgPath(f) == configPkg && f.Name() == "MarshalJSON" {
				persistRoots = append(persistRoots, f)
			}
		}
		reach := syncReach(li, persistRoots)
		var badR []string
		for f := range reach {
			if readers[fnKey(f)] {
				badR = append(badR, fnKey(f))
			}
		}
		sort.Strings(badR)
		r.Check(len(badR) == 0, "C17.R4", "persist / MarshalJSON never read the override", "-", fmt.Sprintf("%d functions reachable from persist and the MarshalJSON methods; none touches overwritable.overwritten", len(reach)), "a command-line override can reach the config file through "+strings.Join(badR, ", "))
		// overwritable.MarshalJSON marshals o.value
		for _, f := range c.FuncsNamed("(" + configPkg + ".overwritable).MarshalJSON") {
			okV := false
			eachCall(f, func(call ssa.CallInstruction, n string) {
				if n == "encoding/json.Marshal" {
					_, p := fieldPath(unconv(call.Common().Args[0]))
					if len(p) == 1 && p[0] == "value" {
						okV = true
					}
				}
			})
			r.Check(okV, "C17.R4", "overwritable.MarshalJSON writes the base value", c.Pos(f.Pos()), "json.Marshal(o.value)", "overwritable.MarshalJSON does not marshal the base value")
		}
		// (b) Read -> Get prefers the override
		for _, f := range c.FuncsNamed("(" + configPkg + ".overwritable).Get") {
			okG := false
			eachCall(f, func(call ssa.CallInstruction, n string) {
				if strings.HasSuffix(n, "typeutils.Optional).UnwrapOr") {
					_, p0 := fieldPath(callArgs(call)[0])
					_, p1 := fieldPath(callArgs(call)[1])
					if len(p0) == 1 && p0[0] == "overwritten" && len(p1) == 1 && p1[0] == "value" {
						okG = true
					}
				}
			})
			r.Check(okG, "C17.R4", "Get returns the override if present, else the base value", c.Pos(f.Pos()), "overwritten.UnwrapOr(value)", "overwritable.Get no longer prefers the override")
		}
		for _, f := range c.FuncsNamed("(*" + configPkg + ".ConfigProp).Read") {
			r.Check(reachesFn(li, f, "("+configPkg+".overwritable).Get"), "C17.R4", "ConfigProp.Read goes through overwritable.Get", c.Pos(f.Pos()), "reaches Get", "Read bypasses the override")
		}
		// (c) the update path never writes the override
		var updRoots []*ssa.Function
		for _, k := range []string{configPkg + ".UpdatePartialFromConfig", "(*" + configPkg + ".ConfigProp).Stage", "(*" + configPkg + ".ConfigProp).CommitStaged", "(*" + configPkg + ".ConfigProp).UnmarshalJSONStaged", "(*" + configPkg + ".ConfigProp).RollbackStaged", "(*" + configPkg + ".ConfigProp).ConfirmCommitted"} {
			updRoots = append(updRoots, c.FuncsNamed(k)...)
		}
		// calls that work on a fresh configuration (NewDefault() in the same function: the dry run's candidate copy)
		// cannot touch the overrides of the live one
		onFreshCopy := func(caller *ssa.Function, in ssa.Instruction) bool {
			call, ok := asCall(in)
			if !ok {
				return false
			}
			if calleeName(call) == configPkg+".NewDefault" {
				return true
			}
			for _, a := range callArgs(call) {
				if derivesFrom(a, func(v ssa.Value) bool {
					c2, ok := v.(*ssa.Call)
					return ok && calleeName(c2) == configPkg+".NewDefault" && c2.Parent() == caller
				}) {
					return true
				}
			}
			return false
		}
		ureach := syncReachSkipping(li, updRoots, onFreshCopy)
		var badU []string
		for f := range ureach {
			k := fnKey(f)
			if writers[k] || k == "(*"+configPkg+".overwritable).Set" || k == "(*"+configPkg+".overwritable).ApplyOverwrite" || k == "(*"+configPkg+".overwritable).UnmarshalJSON" {
				badU = append(badU, k)
			}
		}
		sort.Strings(badU)
		r.Check(len(badU) == 0 && len(updRoots) >= 4, "C17.R4", "API updates never clear or replace a command-line override", "-", fmt.Sprintf("%d functions reachable from the update path; none writes the override", len(ureach)), "the update path reaches "+strings.Join(badU, ", ")+": an API update drops the command-line override")
		for _, f := range c.FuncsNamed("(*" + configPkg + ".ConfigProp).Stage") {
			usesNoClear := false
			for _, g := range append([]*ssa.Function{f}, f.AnonFuncs...) {
				if findCall(g, "(*"+configPkg+".overwritable).SetNoClear") != nil {
					usesNoClear = true
				}
			}
			for _, g := range pkgGroup(li, f) {
				if findCall(g, "(*"+configPkg+".overwritable).SetNoClear") != nil {
					usesNoClear = true
				}
			}
			r.Check(usesNoClear, "C17.R4", "Stage keeps the override (SetNoClear on a copy of the committed cell)", c.Pos(f.Pos()), "SetNoClear", "Stage does not use SetNoClear")
		}
		for _, f := range c.FuncsNamed("(*" + configPkg + ".ConfigProp).Overwrite") {
			isRec := func(in ssa.Instruction) bool {
				x, ok := in.(*ssa.Call)
				return ok && calleeName(x) == "(*"+configPkg+".overwritable).Overwrite"
			}
			isStore := func(in ssa.Instruction) bool {
				x, ok := in.(*ssa.Call)
				return ok && strings.HasSuffix(calleeName(x), "atomics.Value).Store")
			}
			e1 := exitsFromEntryAvoiding(f, deepMarker(isRec, 0), nil)
			e2 := exitsFromEntryAvoiding(f, deepMarker(isStore, 0), nil)
			r.Check(len(e1) == 0 && len(e2) == 0, "C17.R4", "ConfigProp.Overwrite records the override on every path", c.Pos(f.Pos()), "every return is preceded by overwritable.Overwrite and value.Store", "ConfigProp.Overwrite can return without recording the override (e.g. when the value equals the current one): a later API update then replaces the command-line value")
		}
		// (d) ConfigProp.Overwrite called only from the flag handlers
		var ovCallers []string
		for _, f := range li.Fns {
			eachCall(f, func(call ssa.CallInstruction, n string) {
				if n == "(*"+configPkg+".ConfigProp).Overwrite" && !strings.HasPrefix(originPkgPath(f), "reservoir/tests") {
					ovCallers = append(ovCallers, fnKey(topFn(f)))
				}
			})
		}
		ovCallers = uniq(ovCallers)
		// a helper that builds the flag handlers (overwriteWith(prop, read)) and is itself used by the flag set-up only
		flagOnly := func(name string) bool {
			if name == configPkg+".OverrideFromFlags" {
				return true
			}
			fs := c.FuncsNamed(name)
			if len(fs) == 0 {
				return false
			}
			for _, g := range fs {
				cs := li.Callers[g]
				if len(cs) == 0 {
					return false
				}
				for _, site := range cs {
					if site.in.Parent() == nil || fnKey(topFn(site.in.Parent())) != configPkg+".OverrideFromFlags" {
						return false
					}
				}
			}
			return true
		}
		okO := len(ovCallers) >= 1
		for _, oc := range ovCallers {
			if !flagOnly(oc) {
				okO = false
			}
		}
		r.Check(okO, "C17.R4", "overrides are installed only by the command-line flag handlers", "-", strings.Join(ovCallers, ", "), "ConfigProp.Overwrite is also called from "+strings.Join(ovCallers, ", "))
	}

	// ---- R5
	for _, f := range c.FuncsNamed(configPkg + ".load") {
		dec := findCall(f, "(*encoding/json.Decoder).Decode")
		dis := findCall(f, "(*encoding/json.Decoder).DisallowUnknownFields")
		ok := dec != nil && dis != nil && sameVal(callArgs(dec)[0], callArgs(dis)[0]) && instrDominates(dis, dec)
		r.Check(ok, "C17.R5", "load decodes strictly", c.Pos(f.Pos()), "DisallowUnknownFields() on the decoder before Decode", "load does not reject unknown fields")
		ver := findCall(f, "(*"+configPkg+".Config).verify")
		okV := false
		if ver != nil {
			okV = true
			eachInstr(f, func(in ssa.Instruction) {
				ret, isRet := in.(*ssa.Return)
				if !isRet || isRecoverReturn(ret) {
					return
				}
				vals := retVals(ret)
				if isNilConst(vals[1]) && !onlyWhenNil(f, ret, ver, true) {
					okV = false
				}
			})
		}
		r.Check(okV, "C17.R5", "load returns a config only after verify() succeeded", c.Pos(f.Pos()), "success return dominated by verify()==nil", "load can return a configuration that did not pass verify()")
	}

	// ---- R6: what is written to the config file is the live configuration's own serialisation — the encoding of a
	// Config value by encoding/json — and not a document that went through another representation on the way (a
	// map[string]any decoded from JSON keeps unknown keys, which the strict loader then refuses, and turns every
	// integer into a float64). Decided at the body that renames into the config path, for every way its content
	// reaches it.
	nWr := 0
	isConfigEncoding := func(v ssa.Value) bool {
		t := v.Type()
		if p, isP := t.Underlying().(*types.Pointer); isP {
			t = p.Elem()
		}
		return strings.HasSuffix(canonTypes(t.String()), configPkg+".Config")
	}
	var encodedConfig func(v ssa.Value, ctx dctx, d int) bool
	encodedConfig = func(v ssa.Value, ctx dctx, d int) bool {
		if d > 8 {
			return false
		}
		switch x := resolveVal(v).(type) {
		case *ssa.Parameter:
			if a, c2, ok := paramArg(x, ctx); ok {
				return encodedConfig(a, c2, d+1)
			}
			// every caller hands in such a document
			g := x.Parent()
			idx := -1
			for i, q := range g.Params {
				if q == x {
					idx = i
				}
			}
			cs := li.Callers[g]
			if len(cs) == 0 || idx < 0 {
				return false
			}
			for _, site := range cs {
				call, ok := site.in.(*ssa.Call)
				if !ok || idx >= len(callArgs(call)) || !encodedConfig(callArgs(call)[idx], nil, d+1) {
					return false
				}
			}
			return true
		case *ssa.Extract:
			if call, ok := x.Tuple.(*ssa.Call); ok {
				switch calleeName(call) {
				case "encoding/json.Marshal", "encoding/json.MarshalIndent":
					return isConfigEncoding(unconv(callArgs(call)[0]))
				}
				if h := helperBody(call); h != nil {
					return helperResultBounded(h, x.Index, func(ret *ssa.Return, rv ssa.Value) bool {
						if last := retVals(ret); len(last) > 0 && last[len(last)-1].Type().String() == "error" && !isNilConst(last[len(last)-1]) {
							return true // a failing return hands back no document
						}
						return encodedConfig(rv, append(append(dctx{}, ctx...), call), d+1)
					})
				}
			}
		case *ssa.Call:
			if calleeName(x) == "(*bytes.Buffer).Bytes" || calleeName(x) == "(*bytes.Buffer).String" {
				// the buffer an encoder wrote a Config into (and nothing else)
				buf := resolveVal(callArgs(x)[0])
				okEnc, nEnc := true, 0
				eachInstr(x.Parent(), func(in ssa.Instruction) {
					mk, isC := in.(*ssa.Call)
					if !isC || calleeName(mk) != "encoding/json.NewEncoder" || resolveVal(unconv(callArgs(mk)[0])) != buf {
						return
					}
					if refs := mk.Referrers(); refs != nil {
						for _, ref := range *refs {
							if ec, isE := ref.(*ssa.Call); isE && calleeName(ec) == "(*encoding/json.Encoder).Encode" {
								nEnc++
								if !isConfigEncoding(unconv(callArgs(ec)[1])) {
									okEnc = false
								}
							}
						}
					}
				})
				return okEnc && nEnc > 0
			}
		}
		return false
	}
	for _, w := range li.Fns {
		if originPkgPath(w) != configPkg {
			continue
		}
		ren := findCall(w, "os.Rename")
		tmp := findCall(w, "os.CreateTemp")
		if ren == nil || tmp == nil || atomStr(ren.Call.Args[1]) != "configPath.Path" {
			continue
		}
		fromTmpV := func(v ssa.Value) bool {
			return derivesFrom(v, func(x ssa.Value) bool { return x == ssa.Value(tmp) })
		}
		eachInstr(w, func(in ssa.Instruction) {
			call, ok := in.(*ssa.Call)
			if !ok {
				return
			}
			a := callArgs(call)
			switch calleeName(call) {
			case "(*encoding/json.Encoder).Encode":
				if mk, isMk := resolveVal(a[0]).(*ssa.Call); isMk && calleeName(mk) == "encoding/json.NewEncoder" && fromTmpV(callArgs(mk)[0]) {
					nWr++
					r.Check(isConfigEncoding(unconv(a[1])), "C17.R6", fnKey(w)+": the config file receives the encoding of the live Config", c.InstrPos(call), "json.Encoder.Encode(*Config) into the temp file", "what is encoded into the config file is not the Config value itself")
				}
			default:
				if enc, _, isEnc := encodesIntoParam(call, fromTmpV); isEnc {
					nWr++
					r.Check(isConfigEncoding(unconv(callArgs(enc)[1])), "C17.R6", fnKey(w)+": the config file receives the encoding of the live Config", c.InstrPos(call), "a helper encodes the Config value into the temp file it is handed", "what the helper encodes into the config file is not the Config value itself")
				}
			case "(*os.File).Write", "(*os.File).WriteString", "io.WriteString":
				if len(a) >= 2 && fromTmpV(a[0]) {
					nWr++
					r.Check(encodedConfig(a[1], nil, 0), "C17.R6", fnKey(w)+": the config file receives the encoding of the live Config", c.InstrPos(call), "the bytes written are, on every way they get here, encoding/json's encoding of a Config value", "the bytes written into the config file are not (on every way they reach this write) the encoding of a Config value: a document that went through map[string]any keeps keys the strict loader refuses at the next start and loses integer precision above 2^53")
				}
			}
		})
	}
	r.Floor("C17.R6", nWr, 1, "writes into the temp file that becomes the config file")
}

func checkC18(c *Ctx, r *Report) {
	r.Decided = []string{
		"R1 validate-before-effect in UpdatePartialFromConfig: persist is dominated by verify()==nil; subscriber notification / restart flag (ConfirmCommitted) are dominated by verify()==nil and persist()==nil; every error return after staging passes the rollback of all staged properties; staging and committing themselves reach neither Event.Fire nor setRestartNeeded",
		"R2 verify() rejects what the consumers cannot run with: lock_shards < 1, cleanup_interval <= 0, memory budget outside 0..100, max_cache_size <= 0, empty listen/CA/cache-dir strings, unknown cache type, api disabled with dashboard enabled",
		"R3 the config file is replaced atomically: no truncating open of the live path; bytes reach it by os.Rename from a temp file in the same directory after a successful encode",
		"R4 an update stages exactly the fields whose json tag equals the document key",
		"R5 both entrances (file load and API update) run Config.verify",
		"R8 Config.verify succeeds only if the completeness walk (every property IsSet) did, and that walk returns from inside its loop over the fields only with a non-nil error: no field is skipped",
		"R7 before anything is staged the would-be file form (current + update) is decoded into a fresh Config and verified (dry run); staging is dominated by its success",
		"R6 an update's steps (staging, commit, verify, persist, rollback, confirm) all run with one common mutex in the must-held set: updates are applied one at a time",
	}
	r.NotDec = []string{"that the process survives and every component is unchanged as a run-time fact", "write failure after every byte count (R3 is the structural equivalent)", "semantic sufficiency of verify() beyond the listed consumers", "the short window in which a committed-but-not-yet-verified value is readable by concurrent requests before the rollback"}
	li := BuildLocks(c)
	// Set by R7 below: staging is dominated by a successful dry run of the very document that is staged.
	// Then staging cannot fail after something has been staged (the dry run decodes the same values with the
	// same per-type decoders), so the rollback of a staged-but-uncommitted property is a closed path. That rollback
	// is the only reader of a 'previous value' left behind by an unconfirmed commit (Commit overwrites it first
	// on every other path), which makes the Confirm obligations of R1 defensive rather than necessary.
	dryGate := false
	// confirmOblig: an obligation whose only consequence is a stale 'previous value'
	confirmOblig := func(ok bool, key, pos, okDetail, failDetail string) {
		if !ok && dryGate {
			r.Ok("C18.R1", key, pos, "LATENT, not a violation: "+failDetail+" — but the only reader of a stale previous value is the rollback of a staged-but-uncommitted property, and staging is dominated by a successful dry run of the same document (R7), so that rollback is a closed path")
			r.Notes = append(r.Notes, "latent (defensive obligation not met, property unaffected while R7 holds): "+key+" at "+pos)
			return
		}
		r.Check(ok, "C18.R1", key, pos, okDetail, failDetail)
	}

	for _, f := range c.FuncsNamed(configPkg + ".UpdatePartialFromConfig") {
		ver := findCall(f, "(*"+configPkg+".Config).verify")
		per := findCall(f, "(*"+configPkg+".Config).persist")
		setp := findCall(f, configPkg+".setPropsFromMapRecursive")
		if setp == nil {
			// reached through a thin wrapper that hands the results back unchanged
			eachInstr(f, func(in ssa.Instruction) {
				call, ok := in.(*ssa.Call)
				if !ok || setp != nil {
					return
				}
				h := unwrapSynthetic(staticCallee(call))
				if h == nil || h.Blocks == nil || originPkgPath(h) != configPkg {
					return
				}
				inner := findCall(h, configPkg+".setPropsFromMapRecursive")
				if inner == nil {
					return
				}
				tail := true
				eachInstr(h, func(i2 ssa.Instruction) {
					if ret, ok := i2.(*ssa.Return); ok && !isRecoverReturn(ret) {
						for i, v := range retVals(ret) {
							ex, isEx := resolveVal(v).(*ssa.Extract)
							if !isEx || ex.Tuple != ssa.Value(inner) || ex.Index != i {
								tail = false
							}
						}
					}
				})
				if tail {
					setp = call
				}
			})
		}
		if ver == nil || per == nil || setp == nil {
			r.Fail("C18.R1", "UpdatePartialFromConfig anchors", c.Pos(f.Pos()), "verify / persist / setPropsFromMapRecursive call missing")
			continue
		}
		r.Check(onlyWhenNil(f, per, ver, true), "C18.R1", "the file is written only after verify() succeeded", c.InstrPos(per), "persist dominated by verify()==nil", "the configuration file is written before / without a successful verify()")
		// notifications
		nConf := 0
		for _, g := range append([]*ssa.Function{f}, closuresOf(f)...) {
			eachInstr(g, func(in ssa.Instruction) {
				call, ok := in.(*ssa.Call)
				if !ok || !call.Call.IsInvoke() || call.Call.Method.Name() != "ConfirmCommitted" {
					return
				}
				nConf++
				ok2 := g == f && onlyWhenNil(f, call, ver, true) && onlyWhenNil(f, call, per, true)
				r.Check(ok2, "C18.R1", "subscribers are notified only after verify and persist succeeded", c.InstrPos(call), "ConfirmCommitted dominated by verify()==nil and persist()==nil", "components are told about an update that has not been verified and persisted yet")
			})
		}
		// ... or by a helper the update calls (pending.confirm()): the helper's call site is what has to be gated
		for _, hc := range helperContexts(f, 2) {
			if len(hc.ctx) == 0 {
				continue
			}
			eachInstr(hc.fn, func(in ssa.Instruction) {
				call, ok := in.(*ssa.Call)
				if !ok || !call.Call.IsInvoke() || call.Call.Method.Name() != "ConfirmCommitted" {
					return
				}
				nConf++
				site := hc.ctx[0]
				ok2 := onlyWhenNil(f, site, ver, true) && onlyWhenNil(f, site, per, true)
				r.Check(ok2, "C18.R1", "subscribers are notified only after verify and persist succeeded", c.InstrPos(site), "the helper that calls ConfirmCommitted is entered only after verify()==nil and persist()==nil", "components are told about an update that has not been verified and persisted yet")
			})
		}
		r.Floor("C18.R1", nConf, 1, "ConfirmCommitted call sites")
		// rollback on every error exit after staging
		var rollsBack func(g *ssa.Function, d int) bool
		rollsBack = func(g *ssa.Function, d int) bool {
			found := false
			eachInstr(g, func(i2 ssa.Instruction) {
				c2, ok := i2.(*ssa.Call)
				if !ok || found {
					return
				}
				if c2.Call.IsInvoke() {
					found = c2.Call.Method.Name() == "RollbackStaged"
					return
				}
				if d < 3 {
					for _, h := range li.Callees[i2] {
						if originPkgPath(h) == configPkg && rollsBack(h, d+1) {
							found = true
						}
					}
				}
			})
			return found
		}
		isRollback := func(in ssa.Instruction) bool {
			call, ok := in.(*ssa.Call)
			if !ok {
				return false
			}
			if call.Call.IsInvoke() {
				return call.Call.Method.Name() == "RollbackStaged"
			}
			for _, g := range li.Callees[in] {
				if rollsBack(g, 0) {
					return true
				}
			}
			return false
		}
		var bad []string
		deferred := deferredRollback(li, f, setp, ver, per)
		for _, e := range exitsAvoiding(setp, isRollback, nil) {
			if deferred {
				break // a rollback registered with defer before staging runs on every exit that is not an accepted update
			}
			ret := e.(*ssa.Return)
			vals := retVals(ret)
			if len(vals) == 2 && isNilConst(vals[1]) {
				continue // success
			}
			bad = append(bad, c.InstrPos(ret))
		}
		r.Check(len(bad) == 0, "C18.R1", "every failing exit after staging rolls the staged properties back", c.InstrPos(setp), "all error returns after setPropsFromMapRecursive pass RollbackStaged for the staged list", "error return(s) at "+strings.Join(bad, ", ")+" leave staged/committed values behind: a rejected update stays live")
		// the rollback covers the list that was staged
		r.Check(extractOf(setp, 0) != nil, "C18.R1", "the list of staged properties is kept", c.InstrPos(setp), "result #0 used", "the staged list is discarded")
	}
	// R7: an update is tried on a copy first. Before anything is staged on the live configuration, the document that
	// would be written (current file form + the update) is decoded into a fresh Config and verified: an ill-typed or
	// invalid value is refused before it can be committed (a committed-but-unverified value is readable by the change
	// handlers of the previous update, which then keep it although it is rolled back), and what is verified is the
	// form the next start loads — without the command-line overrides that can hide an invalid combination.
	for _, f := range c.FuncsNamed(configPkg + ".UpdatePartialFromConfig") {
		var stage *ssa.Call
		eachInstr(f, func(in ssa.Instruction) {
			if call, ok := in.(*ssa.Call); ok && stage == nil {
				if n := calleeName(call); n == configPkg+".setPropsFromMapRecursive" || n == configPkg+".setPropsFromMap" {
					stage = call
				}
			}
		})
		if stage == nil {
			r.Undecided("C18.R7", "UpdatePartialFromConfig: staging call", c.Pos(f.Pos()), "unresolved anchor")
			continue
		}
		// a dominating call whose body (same package, transitively) marshals, decodes into a NewDefault() config and verifies it
		okDry, where := false, ""
		eachInstr(f, func(in ssa.Instruction) {
			call, ok := in.(*ssa.Call)
			if !ok || okDry {
				return
			}
			h := helperBody(call)
			if h == nil {
				return
			}
			has := map[string]bool{}
			var verifyOnFresh bool
			for _, g := range pkgGroup(li, h) {
				eachInstr(g, func(i2 ssa.Instruction) {
					c2, ok := i2.(*ssa.Call)
					if !ok {
						return
					}
					switch n := calleeName(c2); n {
					case "encoding/json.Marshal", "(*encoding/json.Encoder).Encode":
						has["marshal"] = true
					case "encoding/json.Unmarshal", "(*encoding/json.Decoder).Decode":
						has["decode"] = true
					case configPkg + ".NewDefault":
						has["fresh"] = true
					case "(*" + configPkg + ".Config).verify":
						rv := resolveVal(callArgs(c2)[0])
						if fc, ok := rv.(*ssa.Call); ok && calleeName(fc) == configPkg+".NewDefault" {
							verifyOnFresh = true
						}
						// the fresh configuration may be handed in by the caller (dryRun(cfg, NewDefault(), updates))
						if prm, isP := rv.(*ssa.Parameter); isP && g == h {
							if a, _, okA := paramArg(prm, dctx{call}); okA {
								if fc, ok := resolveVal(a).(*ssa.Call); ok && calleeName(fc) == configPkg+".NewDefault" {
									verifyOnFresh = true
									has["fresh"] = true
								}
							}
						}
					}
				})
			}
			if has["marshal"] && has["decode"] && has["fresh"] && verifyOnFresh {
				errv := ssa.Value(call)
				if tup, isTuple := call.Type().(*types.Tuple); isTuple {
					if ex := extractOf(call, tup.Len()-1); ex != nil {
						errv = ex
					}
				}
				if onlyWhenNil(f, stage, errv, true) {
					okDry, where = true, c.InstrPos(call)
					// the dry run sees the document that is staged afterwards
					sa := callArgs(stage)
					for _, a := range callArgs(call) {
						if len(sa) > 0 && resolveVal(a) == resolveVal(sa[len(sa)-1]) {
							dryGate = true
						}
					}
				}
			}
		})
		r.Check(okDry, "C18.R7", "an update is verified on a copy before anything is staged", c.InstrPos(stage), "staging dominated by the dry run at "+where+" returning nil (marshal + update -> decode into NewDefault() -> verify)", "the live configuration is staged and committed before the update has been verified: a value that is rejected and rolled back is readable in between (a change handler of the previous update adopts it and keeps it — the rollback notifies nobody), and verify() sees the command-line overrides instead of what is written to the file (an accepted update can write a file the next start rejects and resets)")
	}
	// R6: updates are applied one at a time. Staging, commit, verification, the write of the file, rollback and
	// confirmation of one update run under one mutex: two updates in flight share the properties' staged / previous
	// slots, so a rejected value can end up live (and then on disk), and an older snapshot can be renamed over a newer one.
	for _, f := range c.FuncsNamed(configPkg + ".UpdatePartialFromConfig") {
		var common lset
		nSteps := 0
		for _, hc := range helperContexts(f, 2) {
			g := hc.fn
			eachInstr(g, func(in ssa.Instruction) {
				call, ok := in.(*ssa.Call)
				if !ok {
					return
				}
				n := calleeName(call)
				step := false
				switch {
				case n == configPkg+".setPropsFromMapRecursive" && g == f, n == configPkg+".setPropsFromMap" && g == f:
					step = true
				case n == "(*"+configPkg+".Config).verify", n == "(*"+configPkg+".Config).persist":
					step = true
				case call.Call.IsInvoke() && (call.Call.Method.Name() == "CommitStaged" || call.Call.Method.Name() == "RollbackStaged" || call.Call.Method.Name() == "ConfirmCommitted"):
					step = true
				}
				if !step {
					return
				}
				nSteps++
				held := li.HeldMust(in)
				if common == nil {
					common = held.clone()
				} else {
					common = inter(common, held)
				}
			})
		}
		r.Check(nSteps >= 5 && len(common) > 0, "C18.R6", "one update at a time: staging, commit, verify, persist, rollback and confirm share a mutex", c.Pos(f.Pos()), fmt.Sprintf("%d steps, common must-held lock(s) %s", nSteps, common), fmt.Sprintf("the steps of an update run without a common lock (%d steps, common must-held set %s): two concurrent PATCH requests interleave on the properties' staged/previous slots — four clients sending the rejected lock_shards:0 leave it live, and a rejected value reaches the file through a concurrent accepted update", nSteps, common))
	}
	// Stage/CommitStaged must not notify
	var quiet []*ssa.Function
	for _, k := range []string{"(*" + configPkg + ".ConfigProp).Stage", "(*" + configPkg + ".ConfigProp).CommitStaged", "(*" + configPkg + ".ConfigProp).UnmarshalJSONStaged", "(*" + configPkg + ".ConfigProp).RollbackStaged", configPkg + ".setPropsFromMapRecursive"} {
		fs := c.FuncsNamed(k)
		if len(fs) == 0 {
			r.Undecided("C18.R1", k, "-", "unresolved anchor")
		}
		quiet = append(quiet, fs...)
	}
	qr := syncReach(li, quiet)
	var loud []string
	for f := range qr {
		eachInstr(f, func(in ssa.Instruction) {
			call, ok := asCall(in)
			if !ok {
				return
			}
			n := calleeName(call)
			if strings.HasSuffix(n, "event.Event).Fire") || n == configPkg+".setRestartNeeded" {
				loud = append(loud, fnKey(f)+" → "+n[strings.LastIndex(n, ".")+1:])
			}
		})
	}
	r.Check(len(loud) == 0, "C18.R1", "staging, committing and rolling back are silent", "-", fmt.Sprintf("%d functions reachable; none fires an event or flags a restart", len(qr)), "an effect happens before the update is accepted: "+strings.Join(uniq(loud), "; "))
	// rollback restores the previous value
	for _, f := range c.FuncsNamed("(*" + configPkg + ".commitable).Rollback") {
		ok := false
		eachInstr(f, func(in ssa.Instruction) {
			st, isSt := in.(*ssa.Store)
			if !isSt {
				return
			}
			if fv, _, is := fieldOf(st.Addr); is && fname(fv) == "comittedValue" {
				if derivesFrom(st.Val, func(v ssa.Value) bool {
					_, p := fieldPath(v)
					return len(p) > 0 && p[len(p)-1] == "previousValue"
				}) {
					ok = true
				}
			}
		})
		r.Check(ok, "C18.R1", "Rollback restores the value replaced by the last Commit", c.Pos(f.Pos()), "comittedValue = previousValue", "Rollback does not restore the previous committed value")
	}
	for _, f := range c.FuncsNamed("(*" + configPkg + ".commitable).Confirm") {
		ok := false
		eachInstr(f, func(in ssa.Instruction) {
			st, isSt := in.(*ssa.Store)
			if !isSt {
				return
			}
			if fv, base, is := fieldOf(st.Addr); is && fname(fv) == "previousValue" && resolveVal(base) == ssa.Value(f.Params[0]) {
				ok = true
			}
		})
		confirmOblig(ok, "Confirm clears the remembered previous value in place", c.Pos(f.Pos()), "store through the pointer receiver", "Confirm does not clear previousValue of the cell it is called on")
	}
	if len(c.FuncsNamed("(*"+configPkg+".commitable).Confirm")) == 0 {
		confirmOblig(false, "Confirm clears the remembered previous value in place", "-", "", "commitable.Confirm is not a pointer-receiver method (or is gone): a confirmed update keeps its 'previous value', and a later rollback of an unrelated rejected update restores it")
	}
	for _, f := range c.FuncsNamed("(*" + configPkg + ".ConfigProp).ConfirmCommitted") {
		cf := findCall(f, "(*"+configPkg+".commitable).Confirm")
		st := findCall(f, "(*reservoir/utils/atomics.Value).Store")
		okEvery := cf != nil && st != nil && instrDominates(cf, st)
		where := ""
		if okEvery {
			// on every path to a return: a property of any kind (restart-requiring or not) forgets its previous
			// value once the update is final, otherwise a later rollback of a merely staged update restores it.
			// The confirmation may be done through a same-package helper (modify(func(state){state.Confirm()})).
			isConfirmStore := func(in ssa.Instruction) bool { return in == ssa.Instruction(st) }
			for _, e := range exitsFromEntryAvoiding(f, isConfirmStore, nil) {
				if ret, isRet := e.(*ssa.Return); isRet && !isRecoverReturn(ret) {
					okEvery = false
					where = c.InstrPos(ret)
				}
			}
		}
		confirmOblig(okEvery, "ConfirmCommitted confirms the commit and stores the cell back", c.Pos(f.Pos()), "Confirm() then value.Store(commit) on every path", "ConfirmCommitted does not confirm the commit and store the confirmed cell on every path (return at "+where+" skips it): the property keeps its 'previous value', and the rollback of a later rejected update silently restores the setting from before the accepted one")
	}
	// lost writes: a method with a value receiver that assigns a field of its receiver copy
	nVR := 0
	for _, f := range li.Fns {
		if originPkgPath(f) != configPkg || f.Signature.Recv() == nil || f.Parent() != nil {
			continue
		}
		if _, isPtr := f.Signature.Recv().Type().Underlying().(*types.Pointer); isPtr {
			continue
		}
		nVR++
		eachInstr(f, func(in ssa.Instruction) {
			st, isSt := in.(*ssa.Store)
			if !isSt {
				return
			}
			fa, isFA := st.Addr.(*ssa.FieldAddr)
			if !isFA {
				return
			}
			root, _ := fieldPath(fa)
			if a, isA := root.(*ssa.Alloc); isA {
				if sts := storesTo(a); len(sts) == 1 && sts[0].Val == ssa.Value(f.Params[0]) {
					if fname(fa.X.Type().Underlying().(*types.Pointer).Elem().Underlying().(*types.Struct).Field(fa.Field)) == "previousValue" && isNoneValue(st.Val) {
						confirmOblig(false, fnKey(f)+": assignment to a field of a value receiver", c.InstrPos(st), "", "the method has a value receiver, so clearing previousValue changes a copy and is lost")
						return
					}
					r.Fail("C18.R1", fnKey(f)+": assignment to a field of a value receiver", c.InstrPos(st), "the method has a value receiver, so this assignment changes a copy and is lost: the state machine of staged/committed/previous values silently stops advancing")
				}
			}
		})
	}
	r.OkT("C18.R1", "value-receiver methods of package config assign no receiver field", "-", fmt.Sprintf("%d value-receiver methods checked", nVR))
	for _, f := range c.FuncsNamed("(*" + configPkg + ".commitable).Commit") {
		ok := false
		eachInstr(f, func(in ssa.Instruction) {
			st, isSt := in.(*ssa.Store)
			if !isSt {
				return
			}
			if fv, _, is := fieldOf(st.Addr); is && fname(fv) == "previousValue" {
				if derivesFrom(st.Val, func(v ssa.Value) bool {
					_, p := fieldPath(v)
					return len(p) > 0 && p[len(p)-1] == "comittedValue"
				}) {
					ok = true
				}
			}
		})
		r.Check(ok, "C18.R1", "Commit remembers the value it replaces", c.Pos(f.Pos()), "previousValue = Some(comittedValue)", "Commit does not record the previous value: a rollback cannot restore it")
	}

	// ---- R2
	type need struct {
		fn, field string
		rel       []string
		why       string
	}
	needs := []need{
		{"CacheConfig", "LockShards", []string{"<1=true", "<=0=true", ">=1=false", ">0=false"}, "getLock divides by len(locks); make([]RWMutex, n)"},
		{"CacheConfig", "LockShards", []string{">MAX=true"}, "make([]sync.RWMutex, n) panics (len out of range) / exhausts memory for absurd n"},
		{"CacheConfig", "CleanupInterval", []string{"<=0=true", "<1=true", ">0=false"}, "time.NewTicker / Ticker.Reset panic on d <= 0"},
		{"CacheConfig", "MaxCacheSize", []string{"<=0=true", "<1=true", ">0=false"}, "limit 0 makes every store evict everything"},
		{"CacheConfig", "MemoryBudgetPercent", []string{"<0=true"}, "memory cap arithmetic"},
		{"CacheConfig", "MemoryBudgetPercent", []string{">100=true"}, "memory cap arithmetic"},
		{"CacheConfig", "Dir", []string{`==""=true`}, "cache directory"},
		{"CacheConfig", "Type", []string{"!=", "=true"}, "NewProxy refuses an unknown cache type"},
		{"ProxyConfig", "CaCert", []string{`==""=true`}, "CA"},
		{"ProxyConfig", "CaKey", []string{`==""=true`}, "CA"},
		{"WebserverConfig", "ApiDisabled", []string{"=true"}, "startWebServer panics for api disabled + dashboard enabled"},
	}
	for _, nd := range needs {
		fs := c.FuncsNamed("(*" + configPkg + "." + nd.fn + ").verify")
		key := nd.fn + ".verify rejects " + nd.field + " " + nd.rel[0]
		if len(fs) == 0 {
			r.Undecided("C18.R2", key, "-", "unresolved anchor")
			continue
		}
		f := fs[0]
		ok := false
		negs := map[string]string{"<1=true": "<1=false", "<=0=true": "<=0=false", "<0=true": "<0=false", ">100=true": ">100=false", `==""=true`: `==""=false`}
		fieldFacts := func(ret *ssa.Return) map[string]bool {
			out := factStrsMentioning(f, ret, nd.field)
			for k := range factStrs(f, ret) {
				if strings.Contains(k, "."+nd.field+")") {
					out[k] = true
				}
			}
			return out
		}
		eachInstr(f, func(in ssa.Instruction) {
			ret, isRet := in.(*ssa.Return)
			if !isRet {
				return
			}
			if isNilConst(ret.Results[0]) {
				// success return: the refusal condition must be known false there (covers a || b forms)
				for k := range fieldFacts(ret) {
					for _, rel := range nd.rel {
						if ng, has := negs[rel]; has && strings.HasSuffix(k, ng) {
							ok = true
						}
					}
				}
				return
			}
			for k := range fieldFacts(ret) {
				if nd.field == "Type" {
					if strings.Contains(k, "!=") && strings.HasSuffix(k, "=true") {
						ok = true
					}
					if strings.Contains(k, "Contains(") && strings.HasSuffix(k, "=false") {
						ok = true // refused when the type is not among the known ones (slices.Contains(known, type))
					}
					continue
				}
				if nd.field == "ApiDisabled" {
					if strings.HasSuffix(k, "=true") {
						ok = true
					}
					continue
				}
				for _, rel := range nd.rel {
					if strings.HasSuffix(k, rel) {
						ok = true
					}
					if rel == ">MAX=true" && strings.HasSuffix(k, "=true") {
						// an upper bound: <field> > K with a constant K that a slice of mutexes can be made for
						if i := strings.LastIndex(k, ">"); i > 0 {
							var kk int64
							if _, err := fmt.Sscanf(strings.TrimSuffix(k[i+1:], "=true"), "%d", &kk); err == nil && kk > 0 && kk <= 1<<24 {
								ok = true
							}
						}
					}
				}
			}
		})
		if !ok && nd.field == "Type" {
			// positive form: success is reported only where the type was found equal to a known one (a loop over the
			// known types that returns nil on a match and an error after the loop)
			nNil, allMatch := 0, true
			eachInstr(f, func(in ssa.Instruction) {
				ret, isRet := in.(*ssa.Return)
				if !isRet || isRecoverReturn(ret) || !isNilConst(ret.Results[0]) {
					return
				}
				nNil++
				m := false
				for k := range fieldFacts(ret) {
					if strings.Contains(k, "==") && strings.HasSuffix(k, "=true") {
						m = true
					}
				}
				if !m {
					allMatch = false
				}
			})
			ok = nNil > 0 && allMatch
		}
		if !ok && nd.field == "Type" {
			// the same, path by path (a switch whose case lists the known types shares one `return nil` between the
			// cases: no single fact holds at it, but every path into it passed an equality with a known type)
			bs := &boolSummer{li: li}
			if paths, okS := bs.summarise(f, map[string]string{}, 0); okS && !bs.overflow {
				nNil, allMatch := 0, true
				for _, p := range paths {
					if len(p.vals) == 0 || !isNilConst(p.vals[0]) {
						continue
					}
					nNil++
					m := false
					for a, v := range p.cond {
						if v && strings.Contains(a, "==") && (strings.Contains(a, "."+nd.field+")") || strings.Contains(a, "."+nd.field+".")) {
							m = true
						}
					}
					if !m {
						allMatch = false
					}
				}
				ok = nNil > 0 && allMatch
			}
		}
		r.Check(ok, "C18.R2", key, c.Pos(f.Pos()), "refusal present ("+nd.why+")", "verify() accepts a "+nd.field+" the consumers cannot run with ("+nd.why+")")
	}
	// the two listeners are started in one process: a configuration in which they name the same address cannot run
	for _, f := range c.FuncsNamed("(*" + configPkg + ".Config).verify") {
		refused := false
		for _, b := range f.Blocks {
			iff, ok := b.Instrs[len(b.Instrs)-1].(*ssa.If)
			if !ok {
				continue
			}
			mentions := map[string]bool{}
			derivesFromDeep(iff.Cond, nil, func(v ssa.Value, cx dctx) bool {
				if _, pth := ctxFieldPath(v, cx); len(pth) >= 2 && pth[len(pth)-1] == "Listen" {
					mentions[pth[len(pth)-2]] = true
				}
				return false
			})
			if !mentions["Proxy"] || !mentions["Webserver"] {
				continue
			}
			for si := range b.Succs {
				all, n := true, 0
				for _, e := range walkFrom(pos{b.Succs[si], 0}, nil, isReturn, nil) {
					n++
					if vs := retVals(e.(*ssa.Return)); len(vs) != 1 || isNilConst(vs[0]) {
						all = false
					}
				}
				if all && n > 0 {
					refused = true
				}
			}
		}
		r.Check(refused, "C18.R2", "Config.verify refuses two listeners on one address", c.Pos(f.Pos()), "a test over proxy.listen and webserver.listen leads to an error return", "verify() never compares proxy.listen with webserver.listen: both can be set to the same address (or the proxy to :8080, which covers the webserver's default localhost:8080), the update is accepted and saved, and the next start dies on the second bind")
	}
	// listen addresses are checked for what net.Listen needs (host:port, a port that exists), not only for being
	// non-empty: "localhost" or "localhost:99999" can be saved but never started under
	for _, who := range []string{"ProxyConfig", "WebserverConfig"} {
		for _, f := range c.FuncsNamed("(*" + configPkg + "." + who + ").verify") {
			okSplit, okPort := false, false
			for _, hc := range helperContexts(f, 2) {
				g := hc.fn
				eachInstr(g, func(in ssa.Instruction) {
					call, ok := in.(*ssa.Call)
					if !ok {
						return
					}
					n := calleeName(call)
					if n != "net.SplitHostPort" && n != "net.LookupPort" && n != "strconv.ParseUint" && n != "strconv.Atoi" && n != "net.ResolveTCPAddr" {
						return
					}
					// the value checked is the Listen setting
					onListen := false
					for _, a := range callArgs(call) {
						derivesFromDeep(a, hc.ctx, func(v ssa.Value, cx dctx) bool {
							if c2, ok := v.(*ssa.Call); ok && strings.HasSuffix(calleeName(c2), "config.ConfigProp).Read") {
								if _, pth := ctxFieldPath(callArgs(c2)[0], cx); len(pth) > 0 && pth[len(pth)-1] == "Listen" {
									onListen = true
								}
							}
							return false
						})
					}
					if !onListen {
						return
					}
					// its failure is a refusal: on the err != nil edge every return is non-nil
					tup, isTup := call.Type().(*types.Tuple)
					if !isTup {
						return
					}
					errv := extractOf(call, tup.Len()-1)
					if errv == nil {
						return
					}
					refuses := true
					seen := false
					eachInstr(g, func(i2 ssa.Instruction) {
						if ret, ok := i2.(*ssa.Return); ok && onlyWhenNil(g, ret, errv, false) {
							seen = true
							vals := retVals(ret)
							if len(vals) == 0 || isNilConst(vals[len(vals)-1]) {
								refuses = false
							}
						}
					})
					if seen && refuses {
						switch n {
						case "net.SplitHostPort":
							okSplit = true
						case "net.ResolveTCPAddr":
							okSplit, okPort = true, true
						default:
							okPort = true
						}
					}
				})
			}
			r.Check(okSplit && okPort, "C18.R2", who+".verify rejects a listen address that cannot be listened on", c.Pos(f.Pos()), "host:port form (net.SplitHostPort) and the port (net.LookupPort / ParseUint) are checked, failures are refusals", who+".verify only checks that listen is not empty: \"localhost\" (no port) and \"localhost:99999\" are accepted and saved, and the next start dies on the listen error")
		}
	}
	for _, f := range c.FuncsNamed("(*" + configPkg + ".Config).verify") {
		for _, sub := range []string{"ProxyConfig", "WebserverConfig", "CacheConfig"} {
			want := "(*" + configPkg + "." + sub + ").verify"
			// the call: direct, or through a function value (a loop over a table of the sections' verify methods)
			var site *ssa.Call
			eachInstr(f, func(in ssa.Instruction) {
				call, isCall := in.(*ssa.Call)
				if !isCall || site != nil {
					return
				}
				if calleeName(call) == want {
					site = call
					return
				}
				for _, g := range li.Callees[in] {
					if fnKey(unwrapSynthetic(g)) == want || strings.TrimSuffix(funcName(g), "$bound") == want {
						site = call
					}
				}
			})
			ok := site != nil && site.Type().String() == "error"
			if ok {
				// (a) its failure is Config.verify's failure: from the non-nil side every exit returns that error
				for _, e := range exitsAvoiding(site, nil, pruneNil(f, site, false)) {
					ret := e.(*ssa.Return)
					if isRecoverReturn(ret) {
						continue
					}
					if !derivesFrom(ret.Results[0], func(v ssa.Value) bool { return v == ssa.Value(site) }) {
						ok = false
					}
				}
				// (b) success is not reported without it: every way to a `return nil` passes the call, or the head of the
				// loop that makes it once per table entry
				hdr := loopHeaderOf(site.Block())
				passes := func(in ssa.Instruction) bool {
					return in == ssa.Instruction(site) || (hdr != nil && in.Block() == hdr)
				}
				eachInstr(f, func(in ssa.Instruction) {
					ret, isRet := in.(*ssa.Return)
					if !isRet || isRecoverReturn(ret) || !isNilConst(ret.Results[0]) {
						return
					}
					if !mustPassBefore(f, ret, passes, nil) {
						ok = false
					}
				})
			}
			r.Check(ok, "C18.R2", "Config.verify propagates "+sub+".verify", c.Pos(f.Pos()), "called on every way to success; its error is returned", "Config.verify does not call / return "+sub+".verify()")
		}
	}

	// ---- R3
	for _, f := range c.FuncsNamed("(*" + configPkg + ".Config).persist") {
		var bad []string
		ok := false
		// the steps may sit in persist itself or in a helper it hands the encoded document to (writeConfigFile(document))
		for _, hc := range helperContexts(f, 2) {
			g := hc.fn
			eachCall(g, func(call ssa.CallInstruction, n string) {
				switch n {
				case "os.Create", "os.WriteFile", "os.Truncate":
					bad = append(bad, n+" at "+c.InstrPos(call))
				case "os.OpenFile":
					if !strings.Contains(atomStr(call.(ssa.Value)), "tmp") {
						bad = append(bad, n+" at "+c.InstrPos(call))
					}
				}
			})
			ren := findCall(g, "os.Rename")
			tmp := findCall(g, "os.CreateTemp")
			if ren == nil || tmp == nil {
				continue
			}
			fromTmpV := func(v ssa.Value) bool {
				return derivesFrom(v, func(x ssa.Value) bool { return x == ssa.Value(tmp) })
			}
			// what is written into the temp file: an encoder made on it, or the file's own Write / WriteString, or io.Copy
			var writes []*ssa.Call
			eachInstr(g, func(in ssa.Instruction) {
				call, isC := in.(*ssa.Call)
				if !isC {
					return
				}
				a := callArgs(call)
				switch calleeName(call) {
				case "(*encoding/json.Encoder).Encode":
					if mk, isMk := resolveVal(a[0]).(*ssa.Call); isMk && calleeName(mk) == "encoding/json.NewEncoder" && fromTmpV(callArgs(mk)[0]) {
						writes = append(writes, call)
					}
				case "(*os.File).Write", "(*os.File).WriteString", "io.Copy", "io.WriteString", "(*bufio.Writer).Flush":
					if len(a) > 0 && fromTmpV(a[0]) {
						writes = append(writes, call)
					}
				default:
					// a same-package helper that encodes into the writer it is handed (c.encodeIndented(f))
					if _, _, isEnc := encodesIntoParam(call, fromTmpV); isEnc {
						writes = append(writes, call)
					}
				}
			})
			errOf := func(call *ssa.Call) ssa.Value {
				if tup, isT := call.Type().(*types.Tuple); isT {
					return extractOf(call, tup.Len()-1)
				}
				return call
			}
			okW := len(writes) > 0
			for _, w := range writes {
				if e := errOf(w); e == nil || !onlyWhenNil(g, ren, e, true) {
					okW = false
				}
			}
			dst := atomStr(ren.Call.Args[1])
			fromTmp := fromTmpV(ren.Call.Args[0])
			ok = okW && dst == "configPath.Path" && fromTmp && strings.Contains(atomStr(tmp.Call.Args[0]), "Dir(configPath.Path)")
			// the body that replaces the file runs on every successful way through persist
			if ok && len(hc.ctx) > 0 {
				eachInstr(f, func(in ssa.Instruction) {
					ret, isRet := in.(*ssa.Return)
					if !isRet || isRecoverReturn(ret) {
						return
					}
					if vs := retVals(ret); len(vs) == 1 && isNilConst(vs[0]) && !mustPassBefore(f, ret, isInstr(hc.ctx[0]), nil) {
						ok = false
					}
				})
			}
		}
		ok = ok && len(bad) == 0
		r.Check(ok, "C18.R3", "config file is replaced by rename of a completely written temp file", c.Pos(f.Pos()), "CreateTemp(dir of config) → Encode ok → Rename(tmp, configPath)", "the live config file is opened for truncating write ("+strings.Join(bad, ", ")+") or not replaced by rename after a successful encode: a failed write destroys the stored configuration")
	}

	// ---- R4
	for _, f := range c.FuncsNamed(configPkg + ".setPropsFromMapRecursive") {
		n := 0
		for _, g := range pkgGroup(li, f) {
			eachInstr(g, func(in ssa.Instruction) {
				call, ok := in.(*ssa.Call)
				if !ok || !call.Call.IsInvoke() || call.Call.Method.Name() != "UnmarshalJSONStaged" {
					return
				}
				n++
				fs := factStrsDeep(g, call)
				// staging may sit in a helper (stageField): what holds at the helper's call sites holds there too
				if g != f {
					var common map[string]bool
					for _, site := range li.Callers[g] {
						if site.in.Parent() == nil || site.in.Parent() == g {
							continue
						}
						cur := factStrsDeep(site.in.Parent(), site.in)
						if common == nil {
							common = cur
						} else {
							for k := range common {
								if !cur[k] {
									delete(common, k)
								}
							}
						}
					}
					for k := range common {
						fs[k] = true
					}
				}
				okTag := false
				for k := range fs {
					if (strings.Contains(k, "Lookup(") || strings.Contains(k, "Get(")) && strings.Contains(k, ".Tag") && strings.Contains(k, `"json"`) && (strings.HasSuffix(k, "!=range#0=false") || strings.Contains(k, "!=") && strings.HasSuffix(k, "=false") || strings.Contains(k, "==") && strings.HasSuffix(k, "=true")) {
						okTag = true
					}
				}
				r.Check(okTag, "C18.R4", "a property is staged only when its json tag equals the document key", c.InstrPos(call), "UnmarshalJSONStaged on the tag == key edge", "properties are staged without comparing their json tag with the update key: "+strings.Join(keysOf(fs), " ∧ "))
			})
		}
		r.Floor("C18.R4", n, 1, "staging sites")
		// ... and a key that is the tag of no field is not skipped: the dry run decodes the document with encoding/json,
		// which also accepts other spellings of a key (letter case, Unicode folding), so a key this walk does not know
		// may have been verified as a known one. With the "tag equals key" edges taken out of the walk, neither the next
		// key nor a success return can be reached.
		skipped, decided := unknownKeySkipped(f)
		if !decided {
			r.Undecided("C18.R4", "a key that names no setting fails the update", c.Pos(f.Pos()), "the walk over the update document is not a range over the map with a tag comparison per field: not decided")
		} else {
			r.Check(skipped == "", "C18.R4", "a key that names no setting fails the update", c.Pos(f.Pos()), "without a matching tag the walk can reach neither the next key nor a success return", "a key of the update document that matches no json tag is skipped ("+skipped+"): encoding/json folds `liſten` onto `listen` in the dry run, so an update can be verified with one value of a setting and staged with another — behind a command-line override an invalid value is accepted and saved, and the next start refuses the file")
		}
	}

	// ---- R5
	for _, k := range []string{configPkg + ".load", configPkg + ".UpdatePartialFromConfig"} {
		for _, f := range c.FuncsNamed(k) {
			r.Check(findCall(f, "(*"+configPkg+".Config).verify") != nil, "C18.R5", k+" verifies", c.Pos(f.Pos()), "calls Config.verify", k+" does not run Config.verify")
		}
	}
	for _, f := range c.FuncsNamed(configPkg + ".LoadOrDefault") {
		r.Check(findCall(f, configPkg+".load") != nil, "C18.R5", "LoadOrDefault loads through load()", c.Pos(f.Pos()), "calls load", "LoadOrDefault bypasses load()")
	}

	// ---- R8: a configuration that lacks a property is refused, whichever property it is. The completeness walk
	// (the function that asks every property IsSet) visits every field of every section: inside its loop over
	// the fields it returns only to report an error; success is reported after the loop is exhausted. And
	// Config.verify reports success only if the walk did.
	var walkers []*ssa.Function
	for _, f := range li.Fns {
		if originPkgPath(f) != configPkg || f.Blocks == nil {
			continue
		}
		eachInstr(f, func(in ssa.Instruction) {
			if call, ok := in.(*ssa.Call); ok && call.Call.IsInvoke() && call.Call.Method.Name() == "IsSet" {
				walkers = appendUniqueFn(walkers, f)
			}
		})
	}
	blockInCycle := func(b *ssa.BasicBlock) bool {
		seen := map[*ssa.BasicBlock]bool{}
		var st []*ssa.BasicBlock
		st = append(st, b.Succs...)
		for len(st) > 0 {
			x := st[len(st)-1]
			st = st[:len(st)-1]
			if x == b {
				return true
			}
			if seen[x] {
				continue
			}
			seen[x] = true
			st = append(st, x.Succs...)
		}
		return false
	}
	for _, w := range walkers {
		var bad []string
		nRet := 0
		eachInstr(w, func(in ssa.Instruction) {
			ret, ok := in.(*ssa.Return)
			if !ok || isRecoverReturn(ret) {
				return
			}
			inLoop := false
			for _, p := range ret.Block().Preds {
				if blockInCycle(p) {
					inLoop = true
				}
			}
			if !inLoop {
				return
			}
			// the exit taken when the loop is exhausted is the one place for success: a return all of whose in-loop
			// predecessors branch to it on a loop-control test (the counter against NumField() / len)
			isCount := func(v ssa.Value) bool {
				call, ok := unconvNum(v).(*ssa.Call)
				if !ok {
					return false
				}
				if bi, ok := call.Call.Value.(*ssa.Builtin); ok {
					return bi.Name() == "len"
				}
				n := calleeName(call)
				return strings.HasSuffix(n, ".NumField") || strings.HasSuffix(n, ".Len")
			}
			isCounter := func(v ssa.Value) bool {
				v = unconvNum(v)
				if _, ok := v.(*ssa.Phi); ok {
					return true
				}
				if bo, ok := v.(*ssa.BinOp); ok && bo.Op == token.ADD {
					_, p := unconvNum(bo.X).(*ssa.Phi)
					_, k := constInt(bo.Y)
					return p && k
				}
				_, isK := constInt(v)
				return isK
			}
			onlyControlExits := true
			for _, p := range ret.Block().Preds {
				if !blockInCycle(p) && !isLoopEntryTest(p, isCount) {
					continue
				}
				iff, ok := p.Instrs[len(p.Instrs)-1].(*ssa.If)
				if !ok {
					onlyControlExits = false
					continue
				}
				bo, ok := iff.Cond.(*ssa.BinOp)
				if !ok || !((isCounter(bo.X) && isCount(bo.Y)) || (isCounter(bo.Y) && isCount(bo.X))) {
					onlyControlExits = false
				}
			}
			if onlyControlExits {
				return
			}
			nRet++
			vals := retVals(ret)
			ev := vals[len(vals)-1]
			nonNil := false
			switch x := ev.(type) {
			case *ssa.Call:
				if n := calleeName(x); n == "fmt.Errorf" || n == "errors.New" {
					nonNil = true
				}
			case *ssa.MakeInterface:
				nonNil = true
			}
			// a walk that reports (what, found) instead of an error: "found" is its failure
			if isBoolType(ev.Type()) {
				if bv, isC := constBool(ev); isC && bv {
					nonNil = true
				}
				for _, fc := range factsAt(w, ret) {
					if fc.cond == ev && fc.truth {
						nonNil = true
					}
				}
			}
			if !nonNil && !isNilConst(ev) {
				for _, fc := range factsAt(w, ret) {
					if bo, ok := fc.cond.(*ssa.BinOp); ok && (bo.X == ev && isNilConst(bo.Y) || bo.Y == ev && isNilConst(bo.X)) {
						if bo.Op == token.NEQ && fc.truth || bo.Op == token.EQL && !fc.truth {
							nonNil = true
						}
					}
				}
			}
			if !nonNil {
				bad = append(bad, c.InstrPos(ret))
			}
		})
		r.Check(len(bad) == 0, "C18.R8", fnKey(w)+": the completeness walk leaves its field loop only to report an error", c.Pos(w.Pos()), fmt.Sprintf("%d returns inside the loop, each returns a non-nil error", nRet), "the walk over the configuration's fields can return success from inside the loop (return at "+strings.Join(bad, ", ")+"): the fields after that point are never asked IsSet, so a file that lacks one of them is accepted and later operations fail on the incomplete configuration")
	}
	r.Floor("C18.R8", len(walkers), 1, "functions that ask properties IsSet")
	for _, f := range c.FuncsNamed("(*" + configPkg + ".Config).verify") {
		okAll, n := true, 0
		eachInstr(f, func(in ssa.Instruction) {
			call, ok := in.(*ssa.Call)
			if !ok {
				return
			}
			g := unwrapSynthetic(staticCallee(call))
			isWalk := false
			for _, w := range walkers {
				if g == w {
					isWalk = true
				}
			}
			if !isWalk {
				return
			}
			n++
			// every return of a nil error lies on the walk's err == nil side
			eachInstr(f, func(i2 ssa.Instruction) {
				ret, ok := i2.(*ssa.Return)
				if !ok || isRecoverReturn(ret) {
					return
				}
				vals := retVals(ret)
				if !isNilConst(vals[len(vals)-1]) {
					return
				}
				if tup, isTuple := call.Type().(*types.Tuple); isTuple && isBoolType(tup.At(tup.Len()-1).Type()) {
					// (what, found): success is reported only where found is known false
					found := extractOf(call, tup.Len()-1)
					okF := false
					if found != nil {
						for _, fc := range factsAt(f, ret) {
							if fc.cond == found && !fc.truth {
								okF = true
							}
						}
					}
					if !okF {
						okAll = false
					}
					return
				}
				if !onlyWhenNil(f, ret, call, true) {
					okAll = false
				}
			})
		})
		r.Check(n > 0 && okAll, "C18.R8", "Config.verify succeeds only if the completeness walk did", c.Pos(f.Pos()), "nil return dominated by walk()==nil", "Config.verify does not run the completeness walk over the configuration, or reports success although it failed: a configuration with a missing property is accepted")
	}
}

func checkC19(c *Ctx, r *Report) {
	r.Decided = []string{
		"R1 subscriber identity is not positional: the unsubscribe closure captures no integer derived from the slice length / an index, and locates its subscriber by a unique id",
		"R2 notifications are delivered by unordered goroutines, therefore no OnChange handler lets its payload reach state (it must re-read the live setting); payload sent on a channel is only a wake-up (receivers discard it); Fire happens after the new value is stored",
		"R3 every OnChange result is retained in a ConfigSubscriber; every owner with a teardown calls UnsubscribeAll there; UnsubscribeAll clears the list (idempotent)",
		"R4 every setting has a follower: it is restart-flagged, subscribed, or read live on a path reachable from request handling / the janitor / a handler",
		"R5 shutdown handlers do not block (C14.R5) and interval notifications are non-blocking sends",
	}
	r.NotDec = []string{"which value ends up effective under a given schedule (the re-read discipline makes the last handler to run see the latest value)", "goroutine leaks of in-flight notifications at shutdown"}
	r.Exhaust = true
	li := BuildLocks(c)

	// ---- R1
	for _, f := range c.FuncsNamed("(*reservoir/utils/event.Event).Subscribe") {
		var unsub *ssa.Function
		var mk *ssa.MakeClosure
		eachInstr(f, func(in ssa.Instruction) {
			if mc, ok := in.(*ssa.MakeClosure); ok {
				mk = mc
				unsub = mc.Fn.(*ssa.Function)
			}
		})
		if unsub == nil {
			r.Undecided("C19.R1", "Subscribe returns a closure", c.Pos(f.Pos()), "no closure found")
			continue
		}
		var bad []string
		idCapture := false
		for i, fv := range unsub.FreeVars {
			b := mk.Bindings[i]
			bt, isInt := fv.Type().Underlying().(*types.Basic)
			if p, ok := fv.Type().Underlying().(*types.Pointer); ok {
				bt, isInt = p.Elem().Underlying().(*types.Basic)
			}
			if !isInt || bt.Info()&types.IsInteger == 0 {
				continue
			}
			fromLen := derivesFrom(b, func(v ssa.Value) bool {
				_, ok := lenOf(v)
				return ok
			})
			usedAsIndex := false
			eachInstr(unsub, func(in ssa.Instruction) {
				switch x := in.(type) {
				case *ssa.Slice:
					for _, bd := range []ssa.Value{x.Low, x.High, x.Max} {
						if bd != nil && derivesFrom(bd, func(v ssa.Value) bool { return v == ssa.Value(fv) }) {
							usedAsIndex = true
						}
					}
				case *ssa.IndexAddr:
					if derivesFrom(x.Index, func(v ssa.Value) bool { return v == ssa.Value(fv) }) {
						usedAsIndex = true
					}
				}
			})
			if fromLen || usedAsIndex {
				bad = append(bad, fmt.Sprintf("captured %s (from len: %v, used as index/bound: %v)", fv.Name(), fromLen, usedAsIndex))
			} else {
				idCapture = true
			}
		}
		r.Check(len(bad) == 0, "C19.R1", "unsubscribe does not use a position captured at subscribe time", c.Pos(unsub.Pos()), "no captured integer is derived from len(subscribers) or used as an index/bound", "the unsubscribe closure removes by a position captured at subscribe time ("+strings.Join(bad, "; ")+"): after an earlier subscriber is removed it deletes the wrong one or panics")
		// identity comparison present
		cmpID := false
		usesVal := func(x ssa.Value, src ssa.Value) bool {
			return derivesFrom(x, func(v ssa.Value) bool { return v == src })
		}
		eachInstr(unsub, func(in ssa.Instruction) {
			switch x := in.(type) {
			case *ssa.BinOp:
				if x.Op == token.EQL || x.Op == token.NEQ {
					for _, fv := range unsub.FreeVars {
						if usesVal(x.X, fv) || usesVal(x.Y, fv) {
							cmpID = true
						}
					}
				}
			case *ssa.Call:
				// the comparison may live in a helper that receives the captured id
				sc := staticCallee(x)
				if sc == nil {
					return
				}
				g := unwrapSynthetic(sc)
				if g == nil || g.Blocks == nil {
					return
				}
				args := callArgs(x)
				for i, a := range args {
					captured := false
					for _, fv := range unsub.FreeVars {
						if _, isInt := fv.Type().Underlying().(*types.Basic); isInt || true {
							if usesVal(a, fv) {
								captured = true
							}
						}
					}
					if !captured || i >= len(g.Params) {
						continue
					}
					if bt, ok := g.Params[i].Type().Underlying().(*types.Basic); !ok || bt.Info()&types.IsInteger == 0 {
						continue
					}
					// the comparison may sit in a predicate literal inside the helper (slices.IndexFunc(subs, func(s) bool {
					// return s.id == id })): there the id is a captured variable
					for _, lit := range g.AnonFuncs {
						for _, fv := range lit.FreeVars {
							b := freeVarBinding(fv)
							if b == nil {
								continue
							}
							fromParam := cellValue(b) == ssa.Value(g.Params[i])
							if a, isA := resolveVal(b).(*ssa.Alloc); isA && !fromParam {
								for _, st := range storesTo(a) {
									if st.Val == ssa.Value(g.Params[i]) {
										fromParam = true
									}
								}
							}
							if !fromParam {
								continue
							}
							eachInstr(lit, func(in3 ssa.Instruction) {
								if bo, ok := in3.(*ssa.BinOp); ok && (bo.Op == token.EQL || bo.Op == token.NEQ) {
									if usesVal(bo.X, fv) || usesVal(bo.Y, fv) {
										cmpID = true
									}
								}
							})
						}
					}
					eachInstr(g, func(in2 ssa.Instruction) {
						if bo, ok := in2.(*ssa.BinOp); ok && (bo.Op == token.EQL || bo.Op == token.NEQ) {
							if usesVal(bo.X, g.Params[i]) || usesVal(bo.Y, g.Params[i]) {
								cmpID = true
							}
						}
						// and the helper must not use it as a position
						switch y := in2.(type) {
						case *ssa.IndexAddr:
							if usesVal(y.Index, g.Params[i]) {
								cmpID = false
								bad = append(bad, "helper "+fnKey(g)+" indexes with the captured value")
							}
						}
					})
				}
			}
		})
		if len(bad) > 0 {
			r.Fail("C19.R1", "unsubscribe does not use a position captured at subscribe time", c.Pos(unsub.Pos()), strings.Join(bad, "; "))
		}
		r.Check(cmpID && idCapture, "C19.R1", "unsubscribe locates its own subscriber by identity", c.Pos(unsub.Pos()), "compares a captured id with the stored ones", "the unsubscribe closure does not search for its own subscriber by a captured identity")
		// ids are unique: the counter is incremented on every Subscribe
		inc := false
		var idBodies []ssa.Instruction
		for _, hc := range helperContexts(f, 2) { // the registration may sit in a helper (`id := e.add(fn)`)
			eachInstr(hc.fn, func(in ssa.Instruction) { idBodies = append(idBodies, in) })
		}
		for _, in := range idBodies {
			st, ok := in.(*ssa.Store)
			if !ok {
				continue
			}
			if bo, isB := st.Val.(*ssa.BinOp); isB && bo.Op == token.ADD {
				if k, isC := constInt(bo.Y); isC && k == 1 {
					if fa, isFA := st.Addr.(*ssa.FieldAddr); isFA {
						if ld, isLd := bo.X.(*ssa.UnOp); isLd {
							if fa2, ok2 := ld.X.(*ssa.FieldAddr); ok2 && fa2.Field == fa.Field {
								inc = true
							}
						}
					}
				}
			}
		}
		r.Check(inc, "C19.R1", "subscriber ids are unique (counter incremented per Subscribe)", c.Pos(f.Pos()), "id counter += 1", "subscriber ids are not drawn from an incrementing counter")
	}

	// ---- R2
	nHandlers := 0
	for _, f := range li.Fns {
		eachCall(f, func(call ssa.CallInstruction, n string) {
			if !strings.HasSuffix(n, "config.ConfigProp).OnChange") {
				return
			}
			harg := unconv(call.Common().Args[1])
			h := closureFn(harg) // a literal, a named function, or the literal a factory hands back
			hParams := []*ssa.Parameter(nil)
			if h != nil {
				hParams = h.Params
			}
			if m, mps := funcValueBody(harg); m != nil && m != h {
				h, hParams = m, mps // a method value (OnChange(j.onIntervalChanged)): the method, without its receiver
			}
			if h == nil {
				r.Undecided("C19.R2", fnKey(f)+": OnChange handler", c.InstrPos(call), "handler is not a function literal")
				return
			}
			nHandlers++
			_, pp := fieldPath(call.Common().Args[0])
			key := fmt.Sprintf("%s: handler for %s", fnKey(h), strings.Join(pp, "."))
			var bad []string
			if len(hParams) > 0 {
				payload := hParams[len(hParams)-1]
				uses := payloadUses(h, payload)
				for _, u := range uses {
					bad = append(bad, u+" in "+fnKey(h))
				}
			}
			r.Check(len(bad) == 0, "C19.R2", key, c.Pos(h.Pos()), "the payload only reaches logging (or a discarded wake-up); state is set from the live setting", "the handler applies the value carried by the notification ("+strings.Join(bad, "; ")+"): notifications of back-to-back changes may run in either order, so the older value can win")
		})
	}
	r.Floor("C19.R2", nHandlers, 8, "OnChange handlers")
	// Fire after store
	for _, k := range []string{"(*" + configPkg + ".ConfigProp).ConfirmCommitted", "(*" + configPkg + ".ConfigProp).Overwrite"} {
		for _, f := range c.FuncsNamed(k) {
			var fire, store *ssa.Call
			eachInstr(f, func(in ssa.Instruction) {
				if x, ok := in.(*ssa.Call); ok {
					n := calleeName(x)
					if strings.HasSuffix(n, "event.Event).Fire") {
						fire = x
					}
					if strings.HasSuffix(n, "atomics.Value).Store") {
						store = x
					}
					// the notification may have been moved into a helper that does nothing else of substance (p.announce()):
					// its call site is where subscribers are fired
					if h := helperBody(x); h != nil && fire == nil {
						if findCall(h, "(*reservoir/utils/event.Event).Fire") != nil && findCall(h, "(*reservoir/utils/atomics.Value).Store") == nil {
							fire = x
						}
					}
				}
			})
			okOrder := fire != nil && store != nil && instrDominates(store, fire)
			if fire != nil && !okOrder {
				// the store may sit in a helper (p.modify(func…) loads, applies and stores): every way to Fire passes it
				isStoreDeep := deepMarker(func(in ssa.Instruction) bool {
					x, ok := in.(*ssa.Call)
					return ok && strings.HasSuffix(calleeName(x), "atomics.Value).Store")
				}, 0)
				okOrder = mustPassBefore(f, fire, isStoreDeep, nil)
			}
			r.Check(okOrder, "C19.R2", k+": subscribers are fired after the new value is stored", c.Pos(f.Pos()), "Store dominates Fire", "handlers that re-read the setting may still see the old value (Fire before Store)")
		}
	}
	// Fire is the only place that runs handlers, and it does so per goroutine (documented) — record the fact the rule relies on
	for _, f := range c.FuncsNamed("(*reservoir/utils/event.Event).Fire") {
		async := false
		eachInstr(f, func(in ssa.Instruction) {
			if _, ok := in.(*ssa.Go); ok {
				async = true
			}
		})
		r.OkT("C19.R2", "Event.Fire delivery mode", c.Pos(f.Pos()), fmt.Sprintf("asynchronous per subscriber: %v (R2 holds for either mode)", async))
	}

	// ---- R3
	nOn := 0
	for _, f := range li.Fns {
		eachInstr(f, func(in ssa.Instruction) {
			call, ok := in.(*ssa.Call)
			if !ok || !strings.HasSuffix(calleeName(call), "config.ConfigProp).OnChange") {
				return
			}
			if originPkgPath(f) == configPkg {
				return
			}
			nOn++
			kept := false
			for _, ref := range *call.Referrers() {
				if c2, ok := ref.(*ssa.Call); ok && calleeName(c2) == "(*"+configPkg+".ConfigSubscriber).Add" {
					kept = true
				}
				if ct, ok := ref.(*ssa.ChangeType); ok {
					for _, r2 := range *ct.Referrers() {
						if c2, ok := r2.(*ssa.Call); ok && calleeName(c2) == "(*"+configPkg+".ConfigSubscriber).Add" {
							kept = true
						}
					}
				}
			}
			r.Check(kept, "C19.R3", fmt.Sprintf("%s: subscription #%d is retained", fnKey(f), nOn), c.InstrPos(call), "passed to ConfigSubscriber.Add", "the unsubscribe function returned by OnChange is discarded: the component can never be detached")
		})
	}
	r.Floor("C19.R3", nOn, 8, "OnChange subscriptions outside package config")
	// owners with teardown
	owners := map[string]string{
		cachePkg + ".MemoryCache": "(*" + cachePkg + ".MemoryCache).Destroy", cachePkg + ".FileCache": "(*" + cachePkg + ".FileCache).Destroy", cachePkg + ".cacheJanitor": janitorT + "stop",
	}
	for typ, td := range owners {
		fs := c.FuncsNamed(td)
		if len(fs) == 0 {
			r.Undecided("C19.R3", td, "-", "unresolved anchor")
			continue
		}
		ok := false
		eachCall(fs[0], func(call ssa.CallInstruction, n string) {
			if n == "(*"+configPkg+".ConfigSubscriber).UnsubscribeAll" {
				_, p := fieldPath(call.Common().Args[0])
				if len(p) == 1 && p[0] == "subs" {
					ok = true
				}
			}
		})
		r.Check(ok, "C19.R3", typ+" releases its subscriptions on teardown", c.Pos(fs[0].Pos()), td+" calls subs.UnsubscribeAll()", td+" does not call UnsubscribeAll: the stopped component keeps being notified")
	}
	for _, f := range c.FuncsNamed("(*" + cachePkg + ".MemoryCache).Destroy") {
		r.Check(findCall(f, janitorT+"stop") != nil, "C19.R3", "Destroy stops the janitor (memory)", c.Pos(f.Pos()), "janitor.stop()", "Destroy does not stop the janitor")
	}
	for _, f := range c.FuncsNamed("(*" + cachePkg + ".FileCache).Destroy") {
		r.Check(findCall(f, janitorT+"stop") != nil, "C19.R3", "Destroy stops the janitor (file)", c.Pos(f.Pos()), "janitor.stop()", "Destroy does not stop the janitor")
	}
	for _, f := range c.FuncsNamed("(*" + configPkg + ".ConfigSubscriber).UnsubscribeAll") {
		cleared := false
		eachInstr(f, func(in ssa.Instruction) {
			if st, ok := in.(*ssa.Store); ok {
				if fv, _, is := fieldOf(st.Addr); is && fname(fv) == "unsubs" && isNilConst(st.Val) {
					cleared = true
				}
			}
		})
		r.Check(cleared, "C19.R3", "UnsubscribeAll clears the list", c.Pos(f.Pos()), "unsubs = nil", "a second UnsubscribeAll would run the unsubscribe functions again")
	}

	// ---- R4
	var roots []*ssa.Function
	for _, k := range []string{"(*" + proxyPkg + ".Proxy).ServeHTTP", janitorT + "start$1"} {
		for _, f := range li.Fns {
			if fnKey(f) == k {
				roots = append(roots, f)
			}
		}
	}
	for _, f := range li.Fns {
		eachCall(f, func(call ssa.CallInstruction, n string) {
			if strings.HasSuffix(n, "config.ConfigProp).OnChange") {
				if mc, ok := unconv(call.Common().Args[1]).(*ssa.MakeClosure); ok {
					roots = append(roots, mc.Fn.(*ssa.Function))
				}
			}
		})
	}
	live, _ := allReach(li, roots)
	type use struct{ restart, subscribed, liveRead, anyRead bool }
	uses := map[string]*use{}
	props := configProps(c)
	for _, p := range props {
		uses[p.path] = &use{}
	}
	propOf := func(v ssa.Value) string {
		_, p := fieldPath(v)
		// strip leading "cfg" style path elements up to the Config root: match suffix against known props
		for i := 0; i < len(p); i++ {
			cand := strings.Join(p[i:], ".")
			if _, ok := uses[cand]; ok {
				return cand
			}
		}
		return ""
	}
	for _, f := range li.Fns {
		eachCall(f, func(call ssa.CallInstruction, n string) {
			if !strings.HasPrefix(n, "(*"+configPkg+".ConfigProp).") {
				return
			}
			recv := call.Common().Args[0]
			var name string
			if originPkgPath(f) == configPkg && f.Signature.Recv() != nil {
				// inside *XConfig methods the receiver root is the sub-config: qualify by its type name
				_, p := fieldPath(recv)
				rt := strings.TrimSuffix(strings.TrimPrefix(structName(f.Signature.Recv().Type()), configPkg+"."), "Config")
				switch rt {
				case "Proxy", "Webserver", "Cache":
					name = rt + "." + strings.Join(p, ".")
				case "Log":
					name = "Logging." + strings.Join(p, ".")
				}
				if _, ok := uses[name]; !ok {
					name = propOf(recv)
				}
			} else {
				name = propOf(recv)
			}
			u := uses[name]
			if u == nil {
				return
			}
			switch n[strings.LastIndex(n, ".")+1:] {
			case "SetRequiresRestart":
				u.restart = true
			case "OnChange":
				u.subscribed = true
			case "Read":
				u.anyRead = true
				if live[f] && originPkgPath(f) != configPkg {
					u.liveRead = true
				}
			}
		})
	}
	for _, p := range props {
		u := uses[p.path]
		key := "setting " + p.json
		switch {
		case u.restart:
			r.OkT("C19.R4", key, "-", "restart-flagged")
		case u.subscribed:
			r.OkT("C19.R4", key, "-", "a component subscribes to changes")
		case u.liveRead:
			r.Ok("C19.R4", key, "-", "read live on a path reachable from request handling / janitor / a handler")
		case u.anyRead:
			r.Fail("C19.R4", key, "-", "the setting is only read at start-up (copied once) and is neither restart-flagged nor subscribed: later changes are accepted but never followed")
		default:
			r.Fail("C19.R4", key, "-", "the setting has no consumer at all: it is accepted, persisted and shown, but nothing follows it")
		}
	}
	r.Floor("C19.R4", len(props), 20, "settings")

	// ---- R5: interval notification is a non-blocking send
	for _, f := range li.Fns {
		if !strings.HasPrefix(fnKey(f), cachePkg+".newCacheJanitor$") {
			continue
		}
		eachInstr(f, func(in ssa.Instruction) {
			switch x := in.(type) {
			case *ssa.Send:
				r.Fail("C19.R5", fnKey(f)+": interval wake-up is non-blocking", c.InstrPos(x), "blocking send in a notification handler: after the janitor stopped (or while it is busy) handler goroutines pile up forever")
			case *ssa.Select:
				r.Check(!x.Blocking, "C19.R5", fnKey(f)+": interval wake-up is non-blocking", c.InstrPos(x), "select with default", "blocking select in a notification handler")
			}
		})
	}
	lossyChannelsCarryNoState(c, r, li)
}

// payloadUses lists the ways the handler's payload parameter reaches anything
// other than logging.
// lossyChannelsCarryNoState: a send that may be dropped (select with default)
// can only be a wake-up; if the receiver applied the received value, a dropped
// or stale message would leave the component on an old setting.
func lossyChannelsCarryNoState(c *Ctx, r *Report, li *LockInfo) {
	n := 0
	for _, f := range li.Fns {
		if !isModPath(originPkgPath(f)) || strings.HasPrefix(originPkgPath(f), "reservoir/tests") {
			continue
		}
		eachInstr(f, func(in ssa.Instruction) {
			sel, ok := in.(*ssa.Select)
			if !ok || sel.Blocking {
				return
			}
			for _, st := range sel.States {
				if st.Dir != types.SendOnly {
					continue
				}
				_, p := fieldPath(st.Chan)
				if len(p) == 0 {
					continue
				}
				n++
				key := fnKey(f) + ": droppable send on " + strings.Join(p, ".")
				r.Check(receiversDiscard(f, p[len(p)-1]), "C19.R5", key, c.InstrPos(sel), "receivers ignore the value and read the live setting", "a send that is dropped when the slot is full carries a value the receiver applies: after two quick changes the receiver keeps the older value that was already in the slot")
				// A droppable wake-up is only lossless if "dropped" means "one is already pending": the channel needs a
				// slot. On an unbuffered channel the send is dropped whenever the receiver is not parked in its select
				// at that instant (busy with a cycle, handling the previous wake-up, not started yet) and nothing is
				// left to tell it that the setting changed.
				minCap, nMake := int64(1<<62), 0
				for _, g := range li.Fns {
					if !isModPath(originPkgPath(g)) {
						continue
					}
					eachInstr(g, func(i2 ssa.Instruction) {
						st2, ok := i2.(*ssa.Store)
						if !ok {
							return
						}
						fv, _, is := fieldOf(st2.Addr)
						if !is || fname(fv) != p[len(p)-1] {
							return
						}
						mk, ok := unconv(st2.Val).(*ssa.MakeChan)
						if !ok {
							return
						}
						nMake++
						sz, isC := constInt(mk.Size)
						if !isC {
							sz = 0
						}
						if sz < minCap {
							minCap = sz
						}
					})
				}
				r.Check(nMake > 0 && minCap >= 1, "C19.R5", key+" has a slot", c.InstrPos(sel), fmt.Sprintf("every make of the channel has capacity >= 1 (%d sites)", nMake), "the wake-up is sent with select/default on a channel without buffer: it is lost whenever the receiver is not waiting at that very moment, and the component keeps running on the old setting although a newer one was accepted")
			}
		})
	}
	r.Floor("C19.R5", n, 1, "droppable (select-default) sends")
}

func payloadUses(h *ssa.Function, payload *ssa.Parameter) []string {
	var out []string
	seen := map[ssa.Value]bool{}
	var follow func(v ssa.Value, d int)
	follow = func(v ssa.Value, d int) {
		if seen[v] || d > 10 {
			return
		}
		seen[v] = true
		refs := v.Referrers()
		if refs == nil {
			return
		}
		for _, ref := range *refs {
			switch x := ref.(type) {
			case *ssa.DebugRef:
			case *ssa.IndexAddr, *ssa.FieldAddr:
				// address computation on a local aggregate (varargs array)
			case *ssa.MakeInterface:
				// logging arguments: interface value stored into a varargs array passed to slog
				follow(x, d+1)
			case *ssa.Store:
				if x.Val == v {
					// into a local aggregate (varargs array / spilled parameter)?
					base := x.Addr
					for {
						if ia, ok := base.(*ssa.IndexAddr); ok {
							base = ia.X
							continue
						}
						break
					}
					if a, ok := base.(*ssa.Alloc); ok {
						follow(a, d+1)
						for _, r2 := range *a.Referrers() {
							if ld, ok := r2.(*ssa.UnOp); ok {
								follow(ld, d+1)
							}
							if sl, ok := r2.(*ssa.Slice); ok {
								follow(sl, d+1)
							}
						}
					} else {
						out = append(out, "stored to "+atomStr(x.Addr))
					}
				}
			case *ssa.Slice:
				follow(x, d+1)
			case *ssa.Call:
				n := calleeName(x)
				if strings.HasPrefix(n, "log/slog.") {
					continue
				}
				// conversions like newInterval.Cast(): follow the result
				if strings.HasSuffix(n, ".Cast") || strings.HasSuffix(n, ".Bytes") || strings.HasSuffix(n, ".String") {
					follow(x, d+1)
					continue
				}
				out = append(out, "passed to "+n)
			case *ssa.Send:
				out = append(out, "sent on a channel (blocking)")
			case *ssa.Select:
				// a wake-up: acceptable iff every receiver of that channel field discards the value
				for _, st := range x.States {
					if st.Dir == types.SendOnly && st.Send == v {
						_, p := fieldPath(st.Chan)
						if len(p) == 0 || !receiversDiscard(h, p[len(p)-1]) {
							out = append(out, "sent on channel "+strings.Join(p, ".")+" whose receiver uses the value")
						}
					}
				}
			case *ssa.Convert:
				follow(x, d+1)
			case *ssa.ChangeType:
				follow(x, d+1)
			case *ssa.BinOp, *ssa.UnOp, *ssa.Phi:
				if vv, ok := ref.(ssa.Value); ok {
					follow(vv, d+1)
					if _, isB := ref.(*ssa.BinOp); isB {
						out = append(out, "used in a computation")
					}
				}
			default:
				out = append(out, "used by "+ref.String())
			}
		}
	}
	follow(payload, 0)
	return uniq(out)
}

// receiversDiscard: every select/receive on a channel field named chanField in
// the package of h ignores the received value.
func receiversDiscard(h *ssa.Function, chanField string) bool {
	pkgFns := []*ssa.Function{}
	top := topFn(h)
	if top.Pkg != nil {
		for _, m := range top.Pkg.Members {
			if fn, ok := m.(*ssa.Function); ok {
				pkgFns = append(pkgFns, fn)
				pkgFns = append(pkgFns, closuresOf(fn)...)
			}
		}
	}
	ok := true
	found := false
	visit := func(fn *ssa.Function) {
		eachInstr(fn, func(in ssa.Instruction) {
			sel, isSel := in.(*ssa.Select)
			if !isSel {
				return
			}
			for i, st := range sel.States {
				if st.Dir != types.RecvOnly {
					continue
				}
				_, p := fieldPath(st.Chan)
				if len(p) == 0 || p[len(p)-1] != chanField {
					continue
				}
				found = true
				// received values are extracted at index 2+i
				for _, ref := range *sel.Referrers() {
					if e, isE := ref.(*ssa.Extract); isE && e.Index == 2+recvOrdinal(sel, i) {
						if rr := e.Referrers(); rr != nil {
							for _, r2 := range *rr {
								if _, isDbg := r2.(*ssa.DebugRef); !isDbg {
									ok = false
								}
							}
						}
					}
				}
			}
		})
	}
	for _, fn := range pkgFns {
		visit(fn)
	}
	for _, fn := range curConcrete {
		if originPkgPath(fn) == originPkgPath(h) {
			visit(fn)
		}
	}
	return ok && found
}

var curConcrete []*ssa.Function

func recvOrdinal(sel *ssa.Select, state int) int {
	n := 0
	for i, st := range sel.States {
		if i == state {
			return n
		}
		if st.Dir == types.RecvOnly {
			n++
		}
	}
	return n
}

// isNoneValue reports whether v is the empty Optional (typeutils.None[T]()).
func isNoneValue(v ssa.Value) bool {
	call, ok := resolveVal(v).(*ssa.Call)
	if !ok {
		return false
	}
	return strings.HasPrefix(calleeName(call), "reservoir/utils/typeutils.None")
}

// isLoopEntryTest: b ends in the `0 < n` test a rotated counting loop makes before its first iteration.
func isLoopEntryTest(b *ssa.BasicBlock, isCount func(ssa.Value) bool) bool {
	if len(b.Instrs) == 0 {
		return false
	}
	iff, ok := b.Instrs[len(b.Instrs)-1].(*ssa.If)
	if !ok {
		return false
	}
	bo, ok := iff.Cond.(*ssa.BinOp)
	if !ok {
		return false
	}
	_, kx := constInt(bo.X)
	_, ky := constInt(bo.Y)
	return (kx && isCount(bo.Y)) || (ky && isCount(bo.X))
}

// deferredRollback: the update function f registers, before it stages anything (the call setp), a deferred method call
// on the very object that receives the staged list, and that method rolls every staged property back unless a flag
// of the object is set — a flag that is set only where verify (ver) and persist (per) are known to have succeeded.
// Then every exit of f that is not an accepted update has rolled back. A deferred method with a value receiver does
// not qualify: its receiver is the copy made when the defer statement ran, before anything was staged.
func deferredRollback(li *LockInfo, f *ssa.Function, setp, ver, per *ssa.Call) bool {
	ok := false
	eachInstr(f, func(in ssa.Instruction) {
		d, isD := in.(*ssa.Defer)
		if !isD || ok {
			return
		}
		D := unwrapSynthetic(d.Call.StaticCallee())
		if D == nil || D.Blocks == nil || originPkgPath(D) != configPkg || len(d.Call.Args) == 0 || len(D.Params) == 0 || !instrDominates(d, setp) {
			return
		}
		obj, isA := d.Call.Args[0].(*ssa.Alloc)
		if !isA {
			return
		}
		// the staged list goes into this object
		stored := false
		if refs := obj.Referrers(); refs != nil {
			for _, ref := range *refs {
				if fa, isFA := ref.(*ssa.FieldAddr); isFA {
					for _, st := range storesTo(fa) {
						if derivesFrom(st.Val, func(v ssa.Value) bool { return v == ssa.Value(setp) }) {
							stored = true
						}
					}
				}
			}
		}
		if !stored {
			return
		}
		// D: unless a bool field of the receiver is set, every way through passes the rollback of the receiver's list
		var rb *ssa.Call
		eachInstr(D, func(i2 ssa.Instruction) {
			if c2, isC := i2.(*ssa.Call); isC && c2.Call.IsInvoke() && c2.Call.Method.Name() == "RollbackStaged" {
				if derivesFrom(c2.Call.Value, func(v ssa.Value) bool { return v == ssa.Value(D.Params[0]) }) {
					rb = c2
				}
			}
		})
		if rb == nil {
			return
		}
		hdr := loopHeaderOf(rb.Block())
		passes := func(i2 ssa.Instruction) bool {
			return i2 == ssa.Instruction(rb) || (hdr != nil && i2.Block() == hdr)
		}
		var flag *types.Var
		flagSet := func(b *ssa.BasicBlock, si int) bool { // removes the edges on which the flag is true
			iff, isIf := b.Instrs[len(b.Instrs)-1].(*ssa.If)
			if !isIf {
				return false
			}
			cv, positive := stripNot(iff.Cond)
			ld, isLd := cv.(*ssa.UnOp)
			if !isLd || ld.Op != token.MUL {
				return false
			}
			fa, isFA := ld.X.(*ssa.FieldAddr)
			if !isFA || fa.X != ssa.Value(D.Params[0]) {
				return false
			}
			fv, _, is := fieldOf(fa)
			if !is {
				return false
			}
			if bt, isB := fv.Type().Underlying().(*types.Basic); !isB || bt.Kind() != types.Bool {
				return false
			}
			if flag != nil && flag != fv {
				return false
			}
			flag = fv
			return (si == 0) == positive
		}
		if len(exitsFromEntryAvoiding(D, passes, flagSet)) > 0 {
			return
		}
		if flag == nil {
			ok = true // an unconditional rollback
			return
		}
		// the flag is raised only on the accepted side
		good, nTrue := true, 0
		for _, g := range li.Fns {
			if originPkgPath(g) != configPkg {
				continue
			}
			eachInstr(g, func(i2 ssa.Instruction) {
				st, isS := i2.(*ssa.Store)
				if !isS {
					return
				}
				fv, _, is := fieldOf(st.Addr)
				if !is || fv != flag {
					return
				}
				b, isC := constBool(st.Val)
				if !isC {
					good = false
					return
				}
				if !b {
					return
				}
				nTrue++
				var sites []ssa.Instruction
				if g == f {
					sites = append(sites, st)
				} else {
					for _, cs := range li.Callers[g] {
						if cs.in.Parent() != f {
							good = false
							continue
						}
						sites = append(sites, cs.in)
					}
				}
				for _, site := range sites {
					if !onlyWhenNil(f, site, ver, true) || !onlyWhenNil(f, site, per, true) {
						good = false
					}
				}
			})
		}
		ok = good && nTrue > 0
	})
	return ok
}

// unknownKeySkipped: in the function that walks an update document (a range over a map whose keys are compared
// with the json tags of the fields), can an iteration in which no tag equalled the key go on to the next key or to
// a success return? Returns a description of how ("" if it cannot) and whether the shape was recognised.
func unknownKeySkipped(f *ssa.Function) (string, bool) {
	var next *ssa.Next
	eachInstr(f, func(in ssa.Instruction) {
		if nx, ok := in.(*ssa.Next); ok && !nx.IsString && next == nil {
			if rg, ok := nx.Iter.(*ssa.Range); ok {
				if _, isM := rg.X.Type().Underlying().(*types.Map); isM {
					next = nx
				}
			}
		}
	})
	if next == nil {
		return "", false
	}
	keyV := extractOf(next, 1)
	okV := extractOf(next, 0)
	if keyV == nil || okV == nil {
		return "", false
	}
	var body *ssa.BasicBlock
	for _, u := range ifsOn(f, okV) {
		if u.positive {
			body = u.blk.Succs[0]
		} else {
			body = u.blk.Succs[1]
		}
	}
	if body == nil {
		return "", false
	}
	isTag := func(v ssa.Value) bool {
		return derivesFrom(v, func(x ssa.Value) bool {
			call, ok := x.(*ssa.Call)
			if !ok {
				return false
			}
			n := calleeName(call)
			return strings.HasSuffix(n, "StructTag).Lookup") || strings.HasSuffix(n, "StructTag).Get")
		})
	}
	fromKey := func(v ssa.Value) bool {
		return derivesFrom(v, func(x ssa.Value) bool { return x == ssa.Value(keyV) })
	}
	type edge struct {
		b  *ssa.BasicBlock
		si int
	}
	pruned := map[edge]bool{}
	nMatch := 0
	for _, b := range f.Blocks {
		iff, ok := b.Instrs[len(b.Instrs)-1].(*ssa.If)
		if !ok {
			continue
		}
		cv, positive := stripNot(iff.Cond)
		switch x := cv.(type) {
		case *ssa.BinOp:
			if (x.Op == token.EQL || x.Op == token.NEQ) && ((isTag(x.X) && fromKey(x.Y)) || (isTag(x.Y) && fromKey(x.X))) {
				eq := 0
				if (x.Op == token.NEQ) == positive {
					eq = 1
				}
				pruned[edge{b, eq}] = true
				nMatch++
			}
			// i := fieldIndexByJSONTag(typ, key); if i < 0 { unknown }: the index of the field whose tag is the key, -1 if none
			if call, isC := x.X.(*ssa.Call); isC {
				if h := helperBody(call); h != nil {
					if bt, isB := call.Type().Underlying().(*types.Basic); isB && bt.Info()&types.IsInteger != 0 {
						usesTag, usesKey := false, false
						eachCall(h, func(_ ssa.CallInstruction, n string) {
							if strings.HasSuffix(n, "StructTag).Lookup") || strings.HasSuffix(n, "StructTag).Get") {
								usesTag = true
							}
						})
						for _, a := range callArgs(call) {
							if fromKey(a) {
								usesKey = true
							}
						}
						if k, isK := constInt(x.Y); isK && usesTag && usesKey {
							found := -1 // the successor index on which a field was found
							switch {
							case x.Op == token.LSS && k == 0, x.Op == token.EQL && k == -1, x.Op == token.LEQ && k == -1:
								found = 1
							case x.Op == token.GEQ && k == 0, x.Op == token.NEQ && k == -1, x.Op == token.GTR && k == -1:
								found = 0
							}
							if found >= 0 {
								if !positive {
									found = 1 - found
								}
								pruned[edge{b, found}] = true
								nMatch++
							}
						}
					}
				}
			}
		case *ssa.Extract:
			// field, ok := fieldByJSONTag(val, key)
			if call, isC := x.Tuple.(*ssa.Call); isC && isBoolType(x.Type()) {
				if h := helperBody(call); h != nil {
					usesTag, usesKey := false, false
					eachCall(h, func(_ ssa.CallInstruction, n string) {
						if strings.HasSuffix(n, "StructTag).Lookup") || strings.HasSuffix(n, "StructTag).Get") {
							usesTag = true
						}
					})
					for _, a := range callArgs(call) {
						if fromKey(a) {
							usesKey = true
						}
					}
					if usesTag && usesKey {
						hit := 0
						if !positive {
							hit = 1
						}
						pruned[edge{b, hit}] = true
						nMatch++
					}
				}
			}
		}
	}
	if nMatch == 0 {
		return "", false
	}
	// reachability from the loop body with the match edges out, bool merges evaluated over the live edges
	for round := 0; round < 4; round++ {
		reach := map[*ssa.BasicBlock]bool{}
		var visit func(b *ssa.BasicBlock)
		visit = func(b *ssa.BasicBlock) {
			if reach[b] || b == next.Block() {
				return
			}
			reach[b] = true
			for si, sc := range b.Succs {
				if !pruned[edge{b, si}] {
					visit(sc)
				}
			}
		}
		visit(body)
		liveEdge := func(from, to *ssa.BasicBlock) bool {
			if !reach[from] {
				return from == next.Block() || !from.Dominates(to) && false
			}
			for si, sc := range from.Succs {
				if sc == to && !pruned[edge{from, si}] {
					return true
				}
			}
			return false
		}
		var phiConst func(v ssa.Value, d int) (bool, bool)
		phiConst = func(v ssa.Value, d int) (bool, bool) {
			if b, isC := constBool(v); isC {
				return b, true
			}
			phi, isPhi := v.(*ssa.Phi)
			if !isPhi || d > 4 {
				return false, false
			}
			have, val := false, false
			for i, e := range phi.Edges {
				pred := phi.Block().Preds[i]
				if !liveEdge(pred, phi.Block()) {
					continue
				}
				if e == ssa.Value(phi) {
					continue
				}
				b, okC := phiConst(e, d+1)
				if !okC {
					return false, false
				}
				if have && b != val {
					return false, false
				}
				have, val = true, b
			}
			return val, have
		}
		changed := false
		for b := range reach {
			iff, ok := b.Instrs[len(b.Instrs)-1].(*ssa.If)
			if !ok {
				continue
			}
			cv, positive := stripNot(iff.Cond)
			if val, known := phiConst(cv, 0); known {
				dead := 1
				if val != positive {
					dead = 0
				}
				// cond == (val == positive): the edge taken is 0 when that is true
				if !pruned[edge{b, dead}] {
					pruned[edge{b, dead}] = true
					changed = true
				}
			}
		}
		if !changed {
			// verdict on this fixpoint
			for _, p := range next.Block().Preds {
				for si, sc := range p.Succs {
					if sc == next.Block() && reach[p] && !pruned[edge{p, si}] {
						return "the walk goes on to the next key", true
					}
				}
			}
			for b := range reach {
				if ret, isRet := b.Instrs[len(b.Instrs)-1].(*ssa.Return); isRet && !isRecoverReturn(ret) {
					if vals := retVals(ret); len(vals) > 0 && isNilConst(vals[len(vals)-1]) {
						return "the walk returns success", true
					}
				}
			}
			return "", true
		}
	}
	return "", false
}

// encodesIntoParam: call is a call of a same-package helper that is handed a writer satisfying isTarget and, on every
// way through, encodes with a json.Encoder made on that parameter; returns the Encode call inside the helper.
func encodesIntoParam(call *ssa.Call, isTarget func(ssa.Value) bool) (enc *ssa.Call, h *ssa.Function, ok bool) {
	h = helperBody(call)
	if h == nil {
		return nil, nil, false
	}
	for i, a := range callArgs(call) {
		if i >= len(h.Params) || !isTarget(unconv(a)) {
			continue
		}
		prm := h.Params[i]
		eachInstr(h, func(in ssa.Instruction) {
			ec, isC := in.(*ssa.Call)
			if !isC || calleeName(ec) != "(*encoding/json.Encoder).Encode" {
				return
			}
			if mk, isMk := resolveVal(callArgs(ec)[0]).(*ssa.Call); isMk && calleeName(mk) == "encoding/json.NewEncoder" && resolveVal(unconv(callArgs(mk)[0])) == ssa.Value(prm) {
				enc = ec
			}
		})
	}
	if enc == nil {
		return nil, nil, false
	}
	if len(exitsFromEntryAvoiding(h, isInstr(enc), nil)) > 0 {
		return nil, nil, false
	}
	return enc, h, true
}
