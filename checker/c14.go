package main

import (
	"fmt"
	"go/types"
	"sort"
	"strings"

	"golang.org/x/tools/go/ssa"
)

func init() { register("C14", checkC14) }

// functions whose call can wait indefinitely on the network / another goroutine
var waitingCalls = map[string]bool{
	"io.Copy": true, "io.CopyN": true, "io.CopyBuffer": true, "io.ReadAll": true, "io.ReadFull": true,
	"(*bytes.Buffer).ReadFrom":                       true,
	"(*net/http.Client).Do":                          true,
	"(*golang.org/x/sync/singleflight.Group).Do":     true,
	"(*golang.org/x/sync/singleflight.Group).DoChan": true,
	"time.Sleep":                                       true,
	"(*sync.WaitGroup).Wait":                           true,
	"(*sync.Cond).Wait":                                true,
	"(*crypto/tls.Conn).Handshake":                     true,
	"net/http.ReadRequest":                             true,
	"(io.Reader).Read":                                 true,
	"(io.Writer).Write":                                true,
	"(*net/http.Response).Write":                       true,
	"(net/http.ResponseWriter).Write":                  true,
	"(reservoir/proxy/responder.Responder).Write":      true,
	"(reservoir/proxy/responder.Responder).WriteError": true,
}

func isMapLock(cl LockClass) bool {
	s := string(cl)
	if ms, ok := paramMembers[cl]; ok {
		// the mutex parameter of a helper both backends share: a map lock if every caller hands in its map lock
		for _, m := range ms {
			if !isMapLock(m) {
				return false
			}
		}
		return len(ms) > 0
	}
	return s == "F:reservoir/cache.MemoryCache.mu" || s == "F:reservoir/cache.FileCache.mu"
}

var cachePublic = map[string]bool{"Get": true, "Cache": true, "Delete": true, "UpdateMetadata": true, "GetMetadata": true}

func isCachePublicMethod(f *ssa.Function) bool {
	k := fnKey(f)
	for _, t := range []string{"(*reservoir/cache.MemoryCache).", "(*reservoir/cache.FileCache)."} {
		if strings.HasPrefix(k, t) && cachePublic[strings.TrimPrefix(k, t)] {
			return true
		}
	}
	return false
}

func kindName(k lockKind) string {
	return [...]string{"Lock", "RLock", "TryLock", "TryRLock", "Unlock", "RUnlock"}[k]
}

func checkC14(c *Ctx, r *Report) {
	r.Decided = []string{
		"R1 lock-order graph over lock classes (shard S, map lock M, per-field mutexes) has no blocking cycle; a shard lock is never taken blockingly while a shard lock may be held (interprocedural, incl. store->evict and janitor closures)",
		"R2 while a cache map lock is held nothing can wait (no channel op, network/file copy, singleflight, cache re-entry)",
		"R3 every acquisition is released on every exit of the acquiring function; no release without acquisition",
		"R5 functions reachable from Destroy/stop contain no blocking operation (only close(), slice writes, bounded leaf locks)",
		"R6 no lock may be held at the single-flight rendezvous or at an upstream send",
		"R8 a failed TryLock of a class the caller may hold itself is given up: the failure branch neither repeats the TryLock on the same lock nor feeds the exit test of a loop around it",
		"R7 no blocking channel send/receive is synchronously reachable from request handling, cache API or the config-update API",
	}
	r.NotDec = []string{"liveness under network I/O, starvation, goroutine leaks", "deadlocks not caused by sync.Mutex/RWMutex or channels of the module", "shard count 0 (C18)"}
	li := BuildLocks(c)

	for i, u := range li.Undecided {
		r.Undecided("C14.R1", "classify:"+u, c.InstrPos(li.UndecAt[i]), u)
	}

	// ---- R1: per acquisition, the set of edges it creates
	badEdge := map[ssa.Instruction][]string{}
	// cycle detection on blocking edges between distinct classes
	adj := map[LockClass]map[LockClass]bool{}
	for _, e := range li.Edges {
		if !e.blocking {
			continue
		}
		if e.from == e.to {
			badEdge[e.site] = append(badEdge[e.site], fmt.Sprintf("acquires %s blockingly while %s may already be held (self-deadlock / unordered shards)", e.to, e.from))
			continue
		}
		if adj[e.from] == nil {
			adj[e.from] = map[LockClass]bool{}
		}
		adj[e.from][e.to] = true
	}
	reach := func(a, b LockClass) bool {
		seen := map[LockClass]bool{}
		var dfs func(x LockClass) bool
		dfs = func(x LockClass) bool {
			if x == b {
				return true
			}
			if seen[x] {
				return false
			}
			seen[x] = true
			for y := range adj[x] {
				if dfs(y) {
					return true
				}
			}
			return false
		}
		return dfs(a)
	}
	for _, e := range li.Edges {
		if e.blocking && e.from != e.to && reach(e.to, e.from) {
			badEdge[e.site] = append(badEdge[e.site], fmt.Sprintf("lock-order cycle: %s -> %s here and %s ->* %s elsewhere", e.from, e.to, e.to, e.from))
		}
	}
	nAcq, nTry, nCache := 0, 0, 0
	for i := range li.Ops {
		op := &li.Ops[i]
		if !op.kind.acquire() {
			continue
		}
		nAcq++
		if !op.kind.blocking() {
			nTry++
		}
		if strings.HasPrefix(originPkgPath(op.fn), "reservoir/cache") {
			nCache++
		}
		key := fmt.Sprintf("%s: %s %s #%d", fnKey(op.fn), kindName(op.kind), op.class, ordinalOf(li, op))
		held := li.HeldMay(op.in)
		if bad := badEdge[op.in]; len(bad) > 0 {
			r.Fail("C14.R1", key, c.InstrPos(op.in), strings.Join(uniq(bad), "; ")+fmt.Sprintf(" [may-held=%s]", held))
		} else {
			r.Ok("C14.R1", key, c.InstrPos(op.in), fmt.Sprintf("may-held at acquisition=%s; no blocking self-edge or cycle", held))
		}
	}
	r.Floor("C14.R1", nCache, 16, "lock acquisitions in package cache")
	r.Floor("C14.R1", nTry, 1, "TryLock acquisitions (janitor)")

	// ---- R8: a failed TryLock is given up, never retried until it succeeds, when the same goroutine
	// may already hold a lock of that class (the retry then spins forever: a non-blocking deadlock)
	nTry8 := 0
	for i := range li.Ops {
		op := &li.Ops[i]
		if !op.kind.acquire() || op.kind.blocking() {
			continue
		}
		call, ok := op.in.(*ssa.Call)
		if !ok {
			continue
		}
		nTry8++
		f := op.fn
		key := fmt.Sprintf("%s: failed %s %s #%d is not retried", fnKey(f), kindName(op.kind), op.class, ordinalOf(li, op))
		held := li.HeldMay(op.in)
		if !held[op.class] {
			r.Ok("C14.R8", key, c.InstrPos(op.in), "no lock of this class can be held by the caller here: a retry could only wait for other goroutines")
			continue
		}
		// the branch on the TryLock result
		var tryIf *ssa.If
		failIdx := 1
		for _, blk := range f.Blocks {
			if iff, ok := blk.Instrs[len(blk.Instrs)-1].(*ssa.If); ok {
				if cv, positive := stripNot(iff.Cond); cv == ssa.Value(call) {
					tryIf = iff
					if !positive {
						failIdx = 0
					}
				}
			}
		}
		if tryIf == nil {
			r.Undecided("C14.R8", key, c.InstrPos(op.in), "the result of TryLock is not tested by a plain branch; what happens on failure is not decided")
			continue
		}
		failBlk := tryIf.Block().Succs[failIdx]
		// can the failure edge come back to this TryLock at all?
		back := len(walkFrom(pos{failBlk, 0}, nil, func(in ssa.Instruction) bool { return in == ssa.Instruction(call) }, nil)) > 0
		var bad []string
		if back {
			// (a) the lock tried next time round is a different one: its operand is recomputed inside the cycle
			inCycle := func(b *ssa.BasicBlock) bool {
				if len(b.Instrs) == 0 {
					return false
				}
				first := b.Instrs[0]
				fromFail := b == failBlk || len(walkFrom(pos{failBlk, 0}, nil, func(in ssa.Instruction) bool { return in == first }, nil)) > 0
				return fromFail && (b == call.Block() || reachableInstr(first, call, nil))
			}
			recv := callArgs(call)[0]
			def, isInstr := resolveVal(recv).(ssa.Instruction)
			sameLockAgain := !isInstr
			if isInstr {
				// a way back to the TryLock that does not pass the computation of its operand?
				sameLockAgain = len(walkFrom(pos{failBlk, 0}, func(in ssa.Instruction) bool { return in == def }, func(in ssa.Instruction) bool { return in == ssa.Instruction(call) }, nil)) > 0
			}
			if sameLockAgain {
				bad = append(bad, "the failed TryLock is repeated on the same lock (its operand is not recomputed before the retry)")
			}
			// (b) no exit test of a loop around the TryLock depends on something done only on the failure branch
			for _, blk := range f.Blocks {
				iff, ok := blk.Instrs[len(blk.Instrs)-1].(*ssa.If)
				if !ok || iff == tryIf || !inCycle(blk) {
					continue
				}
				leaves := false
				for _, sc := range blk.Succs {
					if !inCycle(sc) && sc != call.Block() {
						leaves = true
					}
				}
				if !leaves {
					continue
				}
				dep := derivesFrom(iff.Cond, func(v ssa.Value) bool {
					in, ok := v.(ssa.Instruction)
					if !ok || in.Parent() != f || in.Block() == nil {
						return false
					}
					return in.Block() == failBlk && len(failBlk.Preds) == 1 || (in.Block() != tryIf.Block() && onlyViaEdge(f, in, tryIf.Block(), failIdx))
				})
				if dep {
					bad = append(bad, "the loop around it continues as long as entries whose TryLock failed remain (exit test at "+c.InstrPos(iff)+" depends on the failure branch)")
				}
			}
		}
		r.Check(len(bad) == 0, "C14.R8", key, c.InstrPos(op.in), "on failure the entry is skipped; no loop condition depends on the failure branch", "TryLock on "+string(op.class)+" is retried until it succeeds although the caller may hold "+string(op.class)+" itself [may-held="+held.String()+"]: "+strings.Join(bad, "; ")+" — a store that evicts under its own shard lock spins forever")
	}
	r.Floor("C14.R8", nTry8, 1, "TryLock sites")

	// ---- R2: nothing waits while a map lock is held
	type agg struct {
		n   int
		bad []string
		pos string
	}
	perFn := map[string]*agg{}
	for _, f := range li.Fns {
		eachInstr(f, func(in ssa.Instruction) {
			held := li.HeldMay(in)
			var m LockClass
			for cl := range held {
				if isMapLock(cl) {
					m = cl
				}
			}
			if m == "" {
				return
			}
			k := fnKey(f) + " holds " + string(m)
			a := perFn[k]
			if a == nil {
				a = &agg{pos: c.InstrPos(in)}
				perFn[k] = a
			}
			a.n++
			switch x := in.(type) {
			case *ssa.Send, *ssa.Select:
				a.bad = append(a.bad, "channel operation at "+c.InstrPos(in))
			case *ssa.UnOp:
				if x.Op.String() == "<-" {
					a.bad = append(a.bad, "channel receive at "+c.InstrPos(in))
				}
			}
			if call, ok := asCall(in); ok {
				if _, isGo := in.(*ssa.Go); isGo {
					return
				}
				n := calleeName(call)
				if waitingCalls[n] || strings.HasPrefix(n, "os.") || strings.HasPrefix(n, "(*os.File).") {
					a.bad = append(a.bad, "call to "+n+" at "+c.InstrPos(in))
				}
				for _, g := range li.Callees[in] {
					if isCachePublicMethod(g) {
						a.bad = append(a.bad, "re-enters cache method "+fnKey(g)+" at "+c.InstrPos(in))
					}
					for _, bi := range blockingChanOps(g) {
						a.bad = append(a.bad, "callee "+fnKey(g)+" blocks on channel at "+c.InstrPos(bi))
					}
				}
			}
		})
	}
	keys := make([]string, 0, len(perFn))
	for k := range perFn {
		keys = append(keys, k)
	}
	sort.Strings(keys)
	for _, k := range keys {
		a := perFn[k]
		if len(a.bad) > 0 {
			r.Fail("C14.R2", k, a.pos, strings.Join(uniq(a.bad), "; "))
		} else {
			r.Ok("C14.R2", k, a.pos, fmt.Sprintf("%d instructions executed under the map lock; none can wait", a.n))
		}
	}
	r.Floor("C14.R2", len(perFn), 4, "functions with a map-lock region")

	// ---- R3: pairing
	fnsWithOps := map[*ssa.Function]bool{}
	for i := range li.Ops {
		fnsWithOps[li.Ops[i].fn] = true
	}
	unp := map[*ssa.Function][]string{}
	for i, u := range li.Unpaired {
		f := li.UnpairedAt[i].Parent()
		unp[f] = append(unp[f], u+" at "+c.InstrPos(li.UnpairedAt[i]))
	}
	n3 := 0
	for _, f := range li.Fns {
		if !fnsWithOps[f] {
			continue
		}
		n3++
		if len(unp[f]) > 0 {
			r.Fail("C14.R3", fnKey(f), c.Pos(f.Pos()), strings.Join(uniq(unp[f]), "; "))
		} else {
			r.Ok("C14.R3", fnKey(f), c.Pos(f.Pos()), "every path from each acquisition reaches a release before return (defer or explicit); TryLock success edge only")
		}
	}
	r.Floor("C14.R3", n3, 20, "functions with lock operations")

	// ---- R5: stopping never blocks
	bounded := boundedClasses(li)
	stopRoots := []string{"(*reservoir/cache.cacheJanitor).stop", "(*reservoir/cache.MemoryCache).Destroy", "(*reservoir/cache.FileCache).Destroy", "(*reservoir/proxy.Proxy).Destroy"}
	nroots := 0
	for _, rk := range stopRoots {
		roots := c.FuncsNamed(rk)
		if len(roots) == 0 {
			r.Undecided("C14.R5", rk, "-", "unresolved anchor "+rk)
			continue
		}
		nroots++
		reachSet := syncReach(li, roots)
		var bad []string
		nf := 0
		for f := range reachSet {
			nf++
			for _, bi := range blockingChanOps(f) {
				bad = append(bad, fmt.Sprintf("%s: blocking channel/wait operation at %s", fnKey(f), c.InstrPos(bi)))
			}
			eachCall(f, func(call ssa.CallInstruction, n string) {
				if _, isGo := call.(*ssa.Go); isGo {
					return
				}
				if waitingCalls[n] {
					bad = append(bad, fmt.Sprintf("%s: call to %s at %s", fnKey(f), n, c.InstrPos(call)))
				}
				if op := li.opAt[call]; op != nil && op.kind.blocking() && !bounded[op.class] {
					bad = append(bad, fmt.Sprintf("%s: blocking acquisition of %s (held elsewhere across waiting operations) at %s", fnKey(f), op.class, c.InstrPos(call)))
				}
			})
		}
		if len(bad) > 0 {
			r.Fail("C14.R5", rk, c.Pos(roots[0].Pos()), strings.Join(uniq(bad), "; "))
		} else {
			r.Ok("C14.R5", rk, c.Pos(roots[0].Pos()), fmt.Sprintf("%d functions synchronously reachable; no channel send/receive/select, no wait, only bounded leaf locks %v", nf, boundedList(bounded)))
		}
	}
	r.Floor("C14.R5", nroots, 4, "stop/Destroy roots")

	// ---- R6: nothing held at rendezvous / upstream send
	n6 := 0
	for _, f := range li.Fns {
		eachCall(f, func(call ssa.CallInstruction, n string) {
			if n != "(*golang.org/x/sync/singleflight.Group).Do" && n != "(*net/http.Client).Do" && n != "(net/http.RoundTripper).RoundTrip" {
				return
			}
			n6++
			held := li.HeldMay(call)
			key := fnKey(f) + " -> " + n
			if len(held) > 0 {
				r.Fail("C14.R6", key, c.InstrPos(call), "locks possibly held across the call: "+held.String())
			} else {
				r.Ok("C14.R6", key, c.InstrPos(call), "may-held set is empty on every call path")
			}
		})
	}
	r.Floor("C14.R6", n6, 2, "rendezvous/upstream-send call sites")

	// ---- R7: no blocking channel op synchronously reachable from request / cache API / config update
	var roots7 []*ssa.Function
	for _, k := range []string{"(*reservoir/proxy.Proxy).ServeHTTP", "reservoir/config.UpdatePartialFromConfig",
		"(*reservoir/config.ConfigProp).Overwrite", "(*reservoir/config.ConfigProp).Stage", "(*reservoir/config.ConfigProp).CommitStaged"} {
		fs := c.FuncsNamed(k)
		if len(fs) == 0 {
			r.Undecided("C14.R7", k, "-", "unresolved anchor "+k)
		}
		roots7 = append(roots7, fs...)
	}
	for _, f := range li.Fns {
		if isCachePublicMethod(f) {
			roots7 = append(roots7, f)
		}
	}
	reach7 := syncReach(li, roots7)
	var bad7 []string
	for f := range reach7 {
		for _, bi := range blockingChanOps(f) {
			if call, ok := bi.(*ssa.Call); ok {
				_ = call
				continue // Wait() handled by waitingCalls under locks; WaitGroup use in request path is legitimate
			}
			bad7 = append(bad7, fmt.Sprintf("%s: %s at %s", fnKey(f), bi.String(), c.InstrPos(bi)))
		}
	}
	sort.Strings(bad7)
	if len(bad7) > 0 {
		r.Fail("C14.R7", "sync-reachable blocking channel operations", "-", strings.Join(bad7, "; "))
	} else {
		r.Ok("C14.R7", "sync-reachable blocking channel operations", "-", fmt.Sprintf("%d functions synchronously reachable from request/cache/config-update roots; none sends or receives on a channel (handlers run behind a go edge)", len(reach7)))
	}
	// all channel sends in the module are enumerated so the rule cannot pass vacuously
	nsend := 0
	for _, f := range li.Fns {
		eachInstr(f, func(in ssa.Instruction) {
			if !strings.HasPrefix(originPkgPath(f), "reservoir/cache") {
				return
			}
			switch x := in.(type) {
			case *ssa.Send:
				nsend++
			case *ssa.Select:
				for _, st := range x.States {
					if st.Dir == types.SendOnly {
						nsend++
					}
				}
			}
		})
	}
	r.Floor("C14.R7", nsend, 1, "channel sends in package cache (interval change notification)")
	r.Notes = append(r.Notes, fmt.Sprintf("lock classes: %v; order edges: %d", classList(li), len(li.Edges)))
}

func ordinalOf(li *LockInfo, op *lockOp) int {
	n := 0
	for i := range li.Ops {
		o := &li.Ops[i]
		if o.fn == op.fn && o.class == op.class && o.kind == op.kind {
			n++
			if o == op {
				return n
			}
		}
	}
	return n
}

func classList(li *LockInfo) []string {
	s := lset{}
	for i := range li.Ops {
		s[li.Ops[i].class] = true
	}
	return s.keys()
}

func boundedList(b map[LockClass]bool) []string {
	var o []string
	for k, v := range b {
		if v {
			o = append(o, string(k))
		}
	}
	sort.Strings(o)
	return o
}

func uniq(s []string) []string {
	sort.Strings(s)
	var o []string
	for i, x := range s {
		if i == 0 || x != s[i-1] {
			o = append(o, x)
		}
	}
	return o
}

// syncReach: functions reachable from roots through call/defer edges (not go).
func syncReach(li *LockInfo, roots []*ssa.Function) map[*ssa.Function]bool {
	seen := map[*ssa.Function]bool{}
	var visit func(f *ssa.Function)
	visit = func(f *ssa.Function) {
		if seen[f] {
			return
		}
		seen[f] = true
		eachInstr(f, func(in ssa.Instruction) {
			if _, isGo := in.(*ssa.Go); isGo {
				return
			}
			for _, g := range li.Callees[in] {
				visit(g)
			}
		})
	}
	for _, f := range roots {
		visit(f)
	}
	return seen
}

// boundedClasses: lock classes whose critical sections contain no waiting
// operation and acquire blockingly only other bounded classes.
func boundedClasses(li *LockInfo) map[LockClass]bool {
	b := map[LockClass]bool{}
	for i := range li.Ops {
		b[li.Ops[i].class] = true
	}
	for _, f := range li.Fns {
		waits := map[ssa.Instruction]bool{}
		for _, bi := range blockingChanOps(f) {
			waits[bi] = true
		}
		eachInstr(f, func(in ssa.Instruction) {
			held := li.HeldMay(in)
			if len(held) == 0 {
				return
			}
			w := waits[in]
			if call, ok := asCall(in); ok {
				if _, isGo := in.(*ssa.Go); !isGo && waitingCalls[calleeName(call)] {
					w = true
				}
			}
			if w {
				for cl := range held {
					b[cl] = false
				}
			}
		})
	}
	for changed := true; changed; {
		changed = false
		for _, e := range li.Edges {
			if e.blocking && !b[e.to] && b[e.from] {
				b[e.from] = false
				changed = true
			}
		}
	}
	return b
}

// syncReachSkipping is syncReach that does not follow a call for which skip reports true.
func syncReachSkipping(li *LockInfo, roots []*ssa.Function, skip func(caller *ssa.Function, in ssa.Instruction) bool) map[*ssa.Function]bool {
	// Calls of a function-typed parameter are resolved in the context of the call that bound it: p.modify(func…)
	// runs the literal this caller passes, not every literal any caller of modify passes.
	seen := map[*ssa.Function]bool{}
	seenCtx := map[string]bool{}
	var visit func(f *ssa.Function, bind map[*ssa.Parameter][]*ssa.Function)
	visit = func(f *ssa.Function, bind map[*ssa.Parameter][]*ssa.Function) {
		key := fmt.Sprintf("%p", f)
		if len(bind) > 0 {
			var ks []string
			for p, fs := range bind {
				for _, g := range fs {
					ks = append(ks, fmt.Sprintf("%p=%p", p, g))
				}
			}
			sort.Strings(ks)
			key += "|" + strings.Join(ks, ",")
		}
		if seenCtx[key] {
			return
		}
		seenCtx[key] = true
		seen[f] = true
		eachInstr(f, func(in ssa.Instruction) {
			if _, isGo := in.(*ssa.Go); isGo {
				return
			}
			if skip != nil && skip(f, in) {
				return
			}
			call, isCall := asCall(in)
			if isCall {
				// a call of one of f's own function-typed parameters
				if p, ok := cellValue(call.Common().Value).(*ssa.Parameter); ok && p.Parent() == f {
					if gs, bound := bind[p]; bound {
						for _, g := range gs {
							visit(g, nil)
						}
						return
					}
				}
			}
			for _, g := range li.Callees[in] {
				var nb map[*ssa.Parameter][]*ssa.Function
				if isCall && staticCallee(call) != nil && unwrapSynthetic(staticCallee(call)) == g {
					for ai, a := range callArgs(call) {
						if ai >= len(g.Params) {
							break
						}
						if _, isFn := g.Params[ai].Type().Underlying().(*types.Signature); !isFn {
							continue
						}
						if cl := closureFn(a); cl != nil {
							if nb == nil {
								nb = map[*ssa.Parameter][]*ssa.Function{}
							}
							nb[g.Params[ai]] = append(nb[g.Params[ai]], cl)
						}
					}
				}
				visit(g, nb)
			}
		})
	}
	for _, f := range roots {
		visit(f, nil)
	}
	return seen
}
