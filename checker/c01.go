package main

import (
	"fmt"
	"go/token"
	"go/types"
	"strings"

	"golang.org/x/tools/go/ssa"
)

func init() {
	register("C01", checkC01)
	register("C11", checkC11)
}

// truncating opens: functions that (re)write a file in place.
func isTruncatingOpen(call ssa.CallInstruction, name string) bool {
	switch name {
	case "os.Create", "os.WriteFile", "os.Truncate":
		return true
	case "os.OpenFile":
		// flag argument: any write access that is not O_EXCL-created is treated as in-place
		if len(call.Common().Args) >= 2 {
			if k, ok := constInt(call.Common().Args[1]); ok {
				const (
					oWRONLY = 0x1
					oRDWR   = 0x2
					oEXCL   = 0x80
				)
				if k&(oWRONLY|oRDWR) != 0 && k&oEXCL == 0 {
					return true
				}
				return false
			}
			return true
		}
	}
	return false
}

func checkC01(c *Ctx, r *Report) {
	r.Decided = []string{
		"R1 (file backend) the published path — the one Get opens — is never opened for in-place writing; bytes reach it only by os.Rename from a temp file created by os.CreateTemp, after the copy succeeded; rename, map update and Get's open all happen under the key's shard lock",
		"R2 (memory backend) the stored byte slice is assigned once, from a function-local buffer, and afterwards only wrapped by bytes.NewReader (read-only views)",
		"R3 nothing is published unless the source reader was copied without error; the recorded Size is the byte count returned by that very copy",
		"R4 a failed store never touches the published entry: error exits remove only the temp file, never the published path, and delete no map entry",
		"R6 ETag / Last-Modified are set on a response built from the store only under a test that the stored value is non-empty / non-zero (what is stored derives from the origin's headers only: C06.R1), so no validator is invented",
		"R5 served headers/validators and the served body come from the same Entry object; followers re-open their own handle (C05.R2); range slice/headers agree (C07.R2)",
	}
	r.NotDec = []string{"byte-for-byte equality of served bodies", "that a request starting after a replace sees the new body as a run-time fact (relies on map + lock semantics, C12.R4 / C14)", "transport-level truncation", "crash points of the file system (rename atomicity is assumed)"}
	li := BuildLocks(c)

	// published path pattern: argument of os.Open in FileCache.Get
	published := ""
	for _, f := range c.FuncsNamed("(*" + cachePkg + ".FileCache).Get") {
		if op := findCall(f, "os.Open"); op != nil {
			published = atomStr(op.Call.Args[0])
			must := li.HeldMust(op)
			r.Check(must["S"], "C01.R1", "Get opens the published file under the key lock", c.InstrPos(op), "must-hold="+must.String(), "Get opens the data file without the key's shard lock: it can pair the old metadata with a new file")
		}
	}
	if published == "" {
		r.Undecided("C01.R1", "published path", "-", "FileCache.Get no longer opens a file with os.Open: anchor lost")
		return
	}
	nOpen := 0
	for _, f := range li.Fns {
		if originPkgPath(f) != cachePkg {
			continue
		}
		eachCall(f, func(call ssa.CallInstruction, n string) {
			if !strings.HasPrefix(n, "os.") {
				return
			}
			if isTruncatingOpen(call, n) {
				nOpen++
				arg := atomStr(call.Common().Args[0])
				r.Check(arg != published, "C01.R1", fnKey(f)+": "+n+" target", c.InstrPos(call), "does not open the published path ("+arg+")", "the published cache file ("+published+") is opened for in-place writing with "+n+": a reader still streaming the previous body receives truncated/new bytes under the old length")
			}
		})
	}
	// bytes arrive by rename from CreateTemp. The steps may sit in Cache itself or in helpers it hands the work to
	// (writeTemp: create + copy, install: rename + insert): each step is taken with the chain of calls it is reached
	// through, values are followed through parameters and results, and orderings are compared in the body two steps share.
	for _, f := range c.FuncsNamed("(*" + cachePkg + ".FileCache).Cache") {
		type step struct {
			call *ssa.Call
			ctx  dctx
			fn   *ssa.Function
		}
		var ren, tmp, cp *step
		var upd *ssa.MapUpdate
		var updCtx dctx
		hcs := helperContexts(f, 2)
		for _, hc := range hcs {
			hc := hc
			if x := findCall(hc.fn, "os.Rename"); x != nil && ren == nil {
				ren = &step{x, hc.ctx, hc.fn}
			}
			if x := findCall(hc.fn, "os.CreateTemp"); x != nil && tmp == nil {
				tmp = &step{x, hc.ctx, hc.fn}
			}
			if x := findCall(hc.fn, "io.Copy"); x != nil && cp == nil {
				cp = &step{x, hc.ctx, hc.fn}
			}
			eachInstr(hc.fn, func(in ssa.Instruction) {
				if u, ok := in.(*ssa.MapUpdate); ok && upd == nil {
					if _, tracked := trackedMapField(u.Map); tracked {
						upd, updCtx = u, hc.ctx
					}
				}
			})
		}
		if ren == nil || tmp == nil || cp == nil || upd == nil {
			r.Fail("C01.R1", "FileCache.Cache: publish by rename", c.Pos(f.Pos()), fmt.Sprintf("missing step: CreateTemp=%v io.Copy=%v Rename=%v map insert=%v", tmp != nil, cp != nil, ren != nil, upd != nil))
			continue
		}
		isTmp := func(v ssa.Value, _ dctx) bool { return v == ssa.Value(tmp.call) }
		fromTmp := derivesFromDeep(ren.call.Call.Args[0], ren.ctx, isTmp)
		toPub := ctxAtom(ren.call.Call.Args[1], ren.ctx) == published
		cpErr := extractOf(cp.call, 1)
		cpDst := derivesFromDeep(cp.call.Call.Args[0], cp.ctx, isTmp)
		srcRoot, srcPath := ctxFieldPath(unconv(cp.call.Call.Args[1]), cp.ctx)
		cpSrc := len(srcPath) == 0 && srcRoot == ssa.Value(paramNamed(f, "data"))
		renL, updL := liftPair(ren.call, ren.ctx, upd, updCtx)
		okOrder := cpErr != nil && successGatedCtx(li, f, cpErr, cp.ctx, ren.call, ren.ctx) && (renL == updL || instrDominates(renL, updL))
		if renL == updL {
			// both in one helper entered by the same call: compare inside it
			okOrder = okOrder && instrDominates(ren.call, upd)
		}
		sameDir := strings.HasPrefix(ctxAtom(tmp.call.Call.Args[0], tmp.ctx), "$c.rootDir.Path")
		r.Check(fromTmp && toPub && cpDst && cpSrc && okOrder && sameDir, "C01.R1", "FileCache.Cache: publish by rename", c.InstrPos(ren.call),
			"CreateTemp(rootDir) ← io.Copy(data) ok → Rename(tmp, published) → map insert", fmt.Sprintf("the body does not reach the published path by 'copy into temp file in the cache dir, then rename' (fromTmp=%v toPublished=%v copyIntoTmp=%v copyFromData=%v renameAfterSuccessfulCopyBeforeInsert=%v tempInCacheDir=%v)", fromTmp, toPub, cpDst, cpSrc, okOrder, sameDir))
		heldAt := func(in ssa.Instruction, ctx dctx) lset {
			h := li.HeldMustX(in).clone()
			for _, cs := range ctx {
				for k := range li.HeldMustX(cs) {
					h[k] = true
				}
			}
			return h
		}
		mr, mu := heldAt(ren.call, ren.ctx), heldAt(upd, updCtx)
		r.Check(mr["S"] && mu["S"], "C01.R1", "FileCache.Cache: rename and map insert under the key lock", c.InstrPos(ren.call), "exclusive S held at both", "rename / map insert happen outside the key's exclusive shard lock: a concurrent Get can pair old metadata with the new file")
		// the handle handed back with the new entry's metadata is opened in the same critical section that published the
		// body: opened after the key lock is gone, it can be the body a concurrent store has renamed into place since,
		// paired with this store's size, validators and headers
		for _, hc := range hcs {
			for _, op := range findCalls(hc.fn, "os.Open") {
				if ctxAtom(op.Call.Args[0], hc.ctx) != published {
					continue
				}
				mo := heldAt(op, hc.ctx)
				r.Check(mo["S"], "C01.R1", "FileCache.Cache: the stored entry's file is opened under the key lock that published it", c.InstrPos(op), "exclusive S held", "Cache opens the published file for the entry it returns after the key's shard lock is released (must-hold="+mo.String()+"): a concurrent store of the same key can rename another body into place in between, and the caller receives that body with this store's metadata")
			}
		}
		// R3: insert only after successful copy; Size is the copy's count
		okPub := cpErr != nil && successGatedCtx(li, f, cpErr, cp.ctx, upd, updCtx)
		r.Check(okPub, "C01.R3", "file backend: publish only after a complete copy", c.InstrPos(upd), "map insert dominated by io.Copy err == nil", "the entry is inserted although the copy from the origin failed: a truncated body is published")
		checkSizeIsCount(c, r, f, cp.call, "C01.R3", "file backend")
		// R4: error exits
		var bad []string
		for _, hc := range hcs {
			for _, g := range append([]*ssa.Function{hc.fn}, closuresOf(hc.fn)...) {
				eachInstr(g, func(in ssa.Instruction) {
					call, ok := in.(*ssa.Call)
					if !ok {
						return
					}
					n := calleeName(call)
					if n == "os.Remove" || n == "os.RemoveAll" {
						if ctxAtom(call.Call.Args[0], hc.ctx) == published || !derivesFromDeep(call.Call.Args[0], hc.ctx, isTmp) {
							bad = append(bad, n+"("+atomStr(call.Call.Args[0])+") at "+c.InstrPos(call))
						}
						// a deferred clean-up that names the file by a named result of the enclosing function removes what
						// the return statement put there: `return "", 0, err` has cleared the name before the deferred
						// function runs, nothing is removed and the temporary file stays in the cache directory
						if ld, isLd := call.Call.Args[0].(*ssa.UnOp); isLd && ld.Op == token.MUL && g.Parent() != nil {
							if fvar, isFV := ld.X.(*ssa.FreeVar); isFV {
								if cell, isA := freeVarBinding(fvar).(*ssa.Alloc); isA && isNamedResult(g.Parent(), cell) {
									for _, st := range storesTo(cell) {
										if sl, self := st.Val.(*ssa.UnOp); self && sl.Op == token.MUL && sl.X == ssa.Value(cell) {
											continue
										}
										if !derivesFromDeep(st.Val, hc.ctx, isTmp) {
											bad = append(bad, n+"("+cell.Comment+") at "+c.InstrPos(call)+" names the file by a result variable that the return at "+c.InstrPos(st)+" overwrites before the deferred clean-up runs")
										}
									}
								}
							}
						}
					}
					if b, isB := call.Call.Value.(*ssa.Builtin); isB && b.Name() == "delete" {
						bad = append(bad, "map delete at "+c.InstrPos(call))
					}
				})
			}
		}
		r.Check(len(bad) == 0, "C01.R4", "file backend: a failed store leaves the published entry alone", c.Pos(f.Pos()), "only the temp file is ever removed", "the store function removes something other than its temp file: "+strings.Join(bad, "; ")+" — a failed overwrite destroys the body that is still listed")
	}
	r.Floor("C01.R1", nOpen+1, 1, "write-opens in package cache")

	// ---- R2 memory bodies
	dataField := c.FieldVar(cachePkg, "memoryInternalEntry", "data")
	if dataField == nil {
		r.Undecided("C01.R2", "memoryInternalEntry.data", "-", "unresolved anchor")
	} else {
		nUse := 0
		for _, f := range li.Fns {
			if originPkgPath(f) != cachePkg {
				continue
			}
			eachInstr(f, func(in ssa.Instruction) {
				fa, ok := in.(*ssa.FieldAddr)
				if !ok {
					return
				}
				fv, _, _ := fieldOf(fa)
				if originVar(fv) != dataField {
					return
				}
				for _, ref := range *fa.Referrers() {
					nUse++
					switch x := ref.(type) {
					case *ssa.Store:
						fresh := isFreshBase(fa.X)
						src := privateBufferBytes(li, x.Val, map[ssa.Value]bool{})
						r.Check(fresh && src, "C01.R2", fnKey(f)+": body slice assigned once from a private buffer", c.InstrPos(x), "initialising store on a fresh entry; source is a function-local bytes.Buffer", "the stored body is (re)assigned after publication or comes from a shared/pooled buffer: readers can observe another response's bytes")
					case *ssa.UnOp:
						// loaded slice: allowed consumers
						for _, r2 := range *x.Referrers() {
							switch y := r2.(type) {
							case *ssa.Call:
								n := calleeName(y)
								okView := n == "bytes.NewReader" || n == "builtin.len"
								if h := helperBody(y); h != nil && !okView {
									// a same-package helper that itself only wraps the slice in a read-only view
									for ai, a := range callArgs(y) {
										if a == ssa.Value(x) && ai < len(h.Params) {
											okView = onlyReadOnlyViews(h.Params[ai], 0)
										}
									}
								}
								r.Check(okView, "C01.R2", fnKey(f)+": stored body used via "+n, c.InstrPos(y), "read-only view", "the stored body slice is handed to "+n+", which may modify or retain it")
							case *ssa.DebugRef:
							default:
								r.Fail("C01.R2", fnKey(f)+": stored body used by "+fmt.Sprintf("%T", r2), c.InstrPos(r2), "the stored body slice is indexed / re-sliced / stored elsewhere: it is no longer immutable after publication")
							}
						}
					default:
						r.Fail("C01.R2", fnKey(f)+": address of stored body escapes", c.InstrPos(ref), "address of memoryInternalEntry.data is taken")
					}
				}
			})
		}
		r.Floor("C01.R2", nUse, 2, "uses of memoryInternalEntry.data")
	}
	// memory R3
	for _, f := range c.FuncsNamed("(*" + cachePkg + ".MemoryCache).cacheInternal") {
		// the insert, or the call of the helper that makes it (oldEntry, overwritten := c.swapEntry(key, entry))
		var upd ssa.Instruction
		eachInstr(f, func(in ssa.Instruction) {
			if u, ok := in.(*ssa.MapUpdate); ok {
				if _, tracked := trackedMapField(u.Map); tracked {
					upd = u
				}
			}
			if x, ok := in.(*ssa.Call); ok && upd == nil {
				if h := helperBody(x); h != nil {
					eachInstr(h, func(i2 ssa.Instruction) {
						if u, ok := i2.(*ssa.MapUpdate); ok {
							if _, tracked := trackedMapField(u.Map); tracked {
								upd = x
							}
						}
					})
				}
			}
		})
		// the copy of the origin body: in this function, or in its caller(s) before the call (the body is read
		// before the lock is taken and handed on as a byte slice)
		type copySite struct {
			rf   *ssa.Call
			fn   *ssa.Function
			site ssa.Instruction // what must be dominated by the copy having succeeded: the insert, or the call of f
		}
		var copies []copySite
		if rf := findCall(f, "(*bytes.Buffer).ReadFrom"); rf != nil && upd != nil {
			copies = append(copies, copySite{rf, f, upd})
		} else {
			for _, cs := range li.Callers[f] {
				if cs.caller == f {
					continue // the retry after an eviction passes its own parameter on
				}
				if rf := findCall(cs.caller, "(*bytes.Buffer).ReadFrom"); rf != nil {
					copies = append(copies, copySite{rf, cs.caller, cs.in})
				} else {
					copies = append(copies, copySite{nil, cs.caller, cs.in})
				}
			}
		}
		if upd == nil || len(copies) == 0 {
			r.Fail("C01.R3", "memory backend: publish only after a complete copy", c.Pos(f.Pos()), "ReadFrom or map insert not found")
			continue
		}
		okAll := true
		for _, cp := range copies {
			if cp.rf == nil {
				okAll = false
				continue
			}
			errv := extractOf(cp.rf, 1)
			var srcParam bool
			if prm, ok := unconv(callArgs(cp.rf)[1]).(*ssa.Parameter); ok && prm.Parent() == cp.fn {
				srcParam = true
			}
			if errv == nil || !srcParam || !onlyWhenNil(cp.fn, cp.site, errv, true) {
				okAll = false
			}
		}
		r.Check(okAll, "C01.R3", "memory backend: publish only after a complete copy", c.InstrPos(upd), "map insert dominated by ReadFrom(data) err == nil (in the store function or in the caller that hands the bytes on)", "the entry is inserted although reading the origin body failed: a truncated body is published")
		// Size: the count returned by the copy, or the length of the very slice that is stored
		okSize := false
		eachInstr(f, func(in ssa.Instruction) {
			st, isSt := in.(*ssa.Store)
			if !isSt {
				return
			}
			fv, base, is := fieldOf(st.Addr)
			if !is || fname(fv) != "Size" || !strings.HasPrefix(structName(base.Type()), cachePkg+".EntryMetadata") {
				return
			}
			v := unconvNum(st.Val)
			for _, cp := range copies {
				if e, isE := v.(*ssa.Extract); isE && cp.rf != nil && e.Tuple == ssa.Value(cp.rf) && e.Index == 0 {
					okSize = true
				}
			}
			if inner, isLen := lenOf(v); isLen {
				// len(x) where x is the slice stored as the body
				eachInstr(f, func(i2 ssa.Instruction) {
					if s2, ok := i2.(*ssa.Store); ok {
						if fv2, _, is2 := fieldOf(s2.Addr); is2 && originVar(fv2) == dataField && sameVal(s2.Val, inner) {
							okSize = true
						}
					}
				})
			}
		})
		r.Check(okSize, "C01.R3", "memory backend: recorded Size is the number of bytes copied", c.Pos(f.Pos()), "Size = count returned by the copy / length of the stored slice", "the Size recorded with the entry is not the byte count of the body that is stored: Content-Length / range validation disagree with the stored bytes")
		// R4: no delete in store
		bad := ""
		eachInstr(f, func(in ssa.Instruction) {
			if call, ok := in.(*ssa.Call); ok {
				if b, isB := call.Call.Value.(*ssa.Builtin); isB && b.Name() == "delete" {
					bad = c.InstrPos(call)
				}
			}
		})
		r.Check(bad == "", "C01.R4", "memory backend: a failed store leaves the published entry alone", c.Pos(f.Pos()), "no map delete in the store function", "the store function deletes a map entry at "+bad)
	}

	// ---- R5: headers and body from the same Entry
	for _, f := range c.FuncsNamed("(*" + proxyPkg + ".Proxy).processRequest") {
		var hdrRoot, bodyRoot string
		eachCall(f, func(call ssa.CallInstruction, n string) {
			if n == "("+responderPkg+".Responder).SetHeaders" {
				s := atomStr(callArgs(call)[1])
				if strings.Contains(s, "Cached.Entry.Metadata.Object.Header") {
					hdrRoot = strings.TrimSuffix(s, ".Metadata.Object.Header")
				}
			}
			if n == proxyPkg+".finalizeAndRespond" {
				s := atomStr(argOf(call, "resp", 1))
				if strings.HasSuffix(s, "Cached.Entry.Data") {
					bodyRoot = strings.TrimSuffix(s, ".Data")
				}
			}
		})
		r.Check(hdrRoot != "" && hdrRoot == bodyRoot, "C01.R5", "cached 200: headers and body from the same entry", c.Pos(f.Pos()), hdrRoot, fmt.Sprintf("the stored headers (%q) and the body (%q) served together are not taken from the same Entry", hdrRoot, bodyRoot))
	}
	for _, f := range c.FuncsNamed("(*" + proxyPkg + ".Proxy).handleRangeRequest") {
		var hdr, body, size string
		eachCall(f, func(call ssa.CallInstruction, n string) {
			if n == "("+responderPkg+".Responder).SetHeaders" {
				s := atomStr(callArgs(call)[1])
				if strings.HasSuffix(s, ".Metadata.Object.Header") && strings.HasPrefix(s, "$cached") {
					hdr = "$cached"
				}
			}
			if n == "io.NewSectionReader" {
				s := atomStr(call.Common().Args[0])
				if s == "$cached.Data" {
					body = "$cached"
				}
			}
			if strings.HasSuffix(n, "rangeHeader).SliceSize") {
				if atomStr(callArgs(call)[1]) == "$cached.Metadata.Size" {
					size = "$cached"
				}
			}
		})
		r.Check(hdr == "$cached" && body == "$cached" && size == "$cached", "C01.R5", "206: headers, size and section from the same entry", c.Pos(f.Pos()), "all from the cached parameter", "the 206 mixes objects: headers/size/body are not all taken from the same Entry")
	}
	// each Get result's Data and Metadata belong together: both backends build Entry{Data, Metadata} from the same lookup
	for _, name := range []string{"(*" + cachePkg + ".MemoryCache).Get", "(*" + cachePkg + ".FileCache).Get"} {
		for _, f := range c.FuncsNamed(name) {
			var lk *mapLook
			looks := lookupsIn(f)
			for i := range looks {
				if sameVal(looks[i].key, paramNamed(f, "key")) {
					lk = &looks[i]
				}
			}
			okMeta := false
			eachInstr(f, func(in ssa.Instruction) {
				// metaCopy := *ptr where ptr derives from the lookup
				if u, ok := in.(*ssa.UnOp); ok && u.Op == token.MUL && lk != nil && lk.val != nil {
					if strings.HasPrefix(structName(u.Type()), cachePkg+".EntryMetadata") {
						if derivesFrom(u.X, func(v ssa.Value) bool { return v == lk.val }) {
							okMeta = true
						}
					}
				}
			})
			r.Check(lk != nil && okMeta, "C01.R5", name+": metadata of the entry looked up by the request's key", c.Pos(f.Pos()), "metadata copy derives from entries[key]", "the metadata returned is not the one stored under the requested key")
			must := lset{}
			if lk != nil {
				must = li.HeldMust(lk.at)
			}
			r.Check(must["S"], "C01.R5", name+": lookup under the key lock", c.Pos(f.Pos()), "S held", "lookup without the key lock")
		}
	}
	checkServedValidators(c, r, li)
}

// checkSizeIsCount: the value stored into EntryMetadata.Size in f is result #0 of copyCall.
// privateBufferBytes: v is the Bytes() of a bytes.Buffer created in the same function over a fresh slice, or a
// parameter for which every caller passes such a value (a retry that passes its own parameter on is fine).
func privateBufferBytes(li *LockInfo, v ssa.Value, assume map[ssa.Value]bool) bool {
	v = resolveVal(v)
	if assume[v] {
		return true
	}
	if call, isCall := v.(*ssa.Call); isCall && calleeName(call) == "(*bytes.Buffer).Bytes" {
		if nb, ok := resolveVal(callArgs(call)[0]).(*ssa.Call); ok && calleeName(nb) == "bytes.NewBuffer" {
			if sl, ok := nb.Call.Args[0].(*ssa.Slice); ok {
				if _, isAlloc := sl.X.(*ssa.Alloc); isAlloc {
					return true
				}
			}
			if _, ok := nb.Call.Args[0].(*ssa.MakeSlice); ok {
				return true
			}
		}
		return false
	}
	if prm, ok := v.(*ssa.Parameter); ok {
		f := prm.Parent()
		idx := -1
		for i, q := range f.Params {
			if q == prm {
				idx = i
			}
		}
		cs := li.Callers[f]
		if idx < 0 || len(cs) == 0 {
			return false
		}
		as := map[ssa.Value]bool{v: true}
		for k := range assume {
			as[k] = true
		}
		for _, site := range cs {
			call, ok := asCall(site.in)
			if !ok {
				return false
			}
			a := callArgs(call)
			if idx >= len(a) || !privateBufferBytes(li, a[idx], as) {
				return false
			}
		}
		return true
	}
	return false
}

func checkSizeIsCount(c *Ctx, r *Report, f *ssa.Function, copyCall *ssa.Call, rule, which string) {
	ok := false
	eachInstr(f, func(in ssa.Instruction) {
		st, isSt := in.(*ssa.Store)
		if !isSt {
			return
		}
		fv, base, is := fieldOf(st.Addr)
		if !is || fname(fv) != "Size" || !strings.HasPrefix(structName(base.Type()), cachePkg+".EntryMetadata") {
			return
		}
		if e, isE := unconvNum(st.Val).(*ssa.Extract); isE && e.Tuple == ssa.Value(copyCall) && e.Index == 0 {
			ok = true
		}
		// the count may come back from the helper that made the copy (tmpName, fileSize, err := c.writeTemp(...))
		if !ok && copyCall.Parent() != f {
			ok = derivesFromDeep(st.Val, nil, func(v ssa.Value, _ dctx) bool {
				e, isE := v.(*ssa.Extract)
				return isE && e.Tuple == ssa.Value(copyCall) && e.Index == 0
			})
		}
	})
	r.Check(ok, rule, which+": recorded Size is the number of bytes copied", c.InstrPos(copyCall), "Size = count returned by the copy", "the Size recorded with the entry is not the byte count of the copy that produced the body: Content-Length / range validation disagree with the stored bytes")
}

// checkServedValidators (C01.R6): a stored response is delivered with the validators the origin
// sent with that body and with no others. Wherever package proxy sets ETag / Last-Modified on a
// response from the stored object's fields, the site is reachable only when that field is non-empty /
// non-zero (the zero value means "the origin sent none"), directly or through the caller's context.
func checkServedValidators(c *Ctx, r *Report, li *LockInfo) {
	n := 0
	for _, f := range li.Fns {
		if originPkgPath(f) != proxyPkg {
			continue
		}
		eachCall(f, func(call ssa.CallInstruction, nme string) {
			if nme != "(reservoir/proxy/responder.Responder).SetHeader" && nme != "(reservoir/proxy/responder.Responder).AddHeader" {
				return
			}
			args := callArgs(call)
			name, isC := constString(args[1])
			if !isC || (name != "ETag" && name != "Last-Modified") {
				return
			}
			field := map[string]string{"ETag": "ETag", "Last-Modified": "LastModified"}[name]
			fromStored := derivesFrom(args[2], func(v ssa.Value) bool {
				_, pth := fieldPath(v)
				if len(pth) >= 2 && pth[len(pth)-1] == field && pth[len(pth)-2] == "Object" {
					return true
				}
				// the stored object may be handed around by itself (stored *cachedRequestInfo): the field of that type
				var fv *types.Var
				switch y := v.(type) {
				case *ssa.FieldAddr, *ssa.Field:
					fv, _, _ = fieldOf(y)
				}
				if fv == nil || fname(fv) != field || fv.Pkg() == nil {
					return false
				}
				if tn, ok := scopeLookupType(fv.Pkg(), "cachedRequestInfo").(*types.TypeName); ok {
					if st, ok := tn.Type().Underlying().(*types.Struct); ok {
						for i := 0; i < st.NumFields(); i++ {
							if st.Field(i) == fv {
								return true
							}
						}
					}
				}
				return false
			})
			if !fromStored {
				return
			}
			n++
			fs := factStrsCtx(li, f, call.(ssa.Instruction))
			ok := false
			for k := range fs {
				if !strings.Contains(k, "."+field) {
					continue
				}
				switch {
				case field == "ETag" && (strings.HasSuffix(k, `==""=false`) || strings.HasSuffix(k, `!=""=true`)):
					ok = true
				case field == "LastModified" && strings.HasPrefix(k, "IsZero(") && strings.HasSuffix(k, "=false"):
					ok = true
				}
			}
			r.Check(ok, "C01.R6", fnKey(f)+": "+name+" is delivered only if the origin sent one", c.InstrPos(call), "guarded by the stored "+field+" being non-empty / non-zero", "the stored response is delivered with a "+name+" header even when the origin sent none (empty / zero stored value): the client receives a validator the origin never issued")
		})
	}
	r.Floor("C01.R6", n, 2, "validator headers set from the stored object")
}

func checkC11(c *Ctx, r *Report) {
	r.Decided = []string{
		"R1 issuance: x509.CreateCertificate is called with parent = the CA certificate, signing key = the CA key, public key = that of the key generated in the same call, and the PEM key returned marshals that same key; validity is [now, now + hours]; every requested name reaches IPAddresses (if it parses as an IP) or DNSNames",
		"R2 the certificate is issued for, cached under and looked up by the host part of the CONNECT target; the TLS server presents exactly the certificate returned",
		"R3 a cached certificate is returned only on the not-expired edge of a test of Leaf.NotAfter against the clock; the expired edge deletes it and issues a new one",
		"R4 the certificate map is only accessed through SyncMap's locked methods (see C15); lookup, issuance and store for a host run under one common lock, so a burst of tunnels to a new host shares one certificate",
	}
	r.NotDec = []string{"chain verification, key match and SAN semantics as run-time facts (crypto/x509 trusted)", "concurrent first issuance (benign duplicates)", "certificate lifetime arithmetic"}
	li := BuildLocks(c)
	_ = li
	const certsPkg = "reservoir/proxy/certs"
	for _, f := range c.FuncsNamed("(*" + certsPkg + ".PrivateCA).createCert") {
		cc := findCall(f, "crypto/x509.CreateCertificate")
		gk := findCall(f, "crypto/ecdsa.GenerateKey")
		mk := findCall(f, "crypto/x509.MarshalPKCS8PrivateKey")
		if cc == nil || gk == nil || mk == nil {
			r.Fail("C11.R1", "createCert anchors", c.Pos(f.Pos()), "CreateCertificate / GenerateKey / MarshalPKCS8PrivateKey not found")
			continue
		}
		a := cc.Call.Args // rand, template, parent, pub, priv
		parent := atomStr(a[2])
		priv := atomStr(a[4])
		key := extractOf(gk, 0)
		pubOK := false
		if key != nil {
			root, p := fieldPath(unconv(a[3]))
			pubOK = resolveVal(root) == ssa.Value(key) && len(p) == 1 && p[0] == "PublicKey"
		}
		r.Check(parent == "$ca.cert" && priv == "$ca.key" && pubOK, "C11.R1", "certificate is signed by the CA for the freshly generated key", c.InstrPos(cc), "CreateCertificate(template, ca.cert, &newKey.PublicKey, ca.key)", fmt.Sprintf("issuance arguments changed: parent=%s signer=%s publicKeyOfNewKey=%v", parent, priv, pubOK))
		r.Check(key != nil && unconv(mk.Call.Args[0]) == ssa.Value(key), "C11.R1", "the returned private key is the one certified", c.InstrPos(mk), "MarshalPKCS8PrivateKey(newKey)", "the PEM key returned is not the key whose public half was certified")
		// template is what was filled
		tmplRoot, _ := fieldPath(a[1])
		tmplSet := map[ssa.Value]bool{tmplRoot: true}
		for _, st := range storesTo(tmplRoot) {
			if ld, ok := st.Val.(*ssa.UnOp); ok && ld.Op == token.MUL {
				tmplSet[ld.X] = true // composite literal built in a temporary and copied in
			}
		}
		var nb, na string
		ipArm, dnsArm := false, false
		for _, hc := range helperContexts(f, 2) {
			g := hc.fn
			eachInstr(g, func(in ssa.Instruction) {
				st, ok := in.(*ssa.Store)
				if !ok {
					return
				}
				fv, base, is := fieldOf(st.Addr)
				if !is {
					return
				}
				if g == f {
					if !(tmplSet[base] || sameVal(base, tmplRoot)) {
						return
					}
				} else {
					// in a helper: the certificate written is the template handed in by createCert
					prm, isP := resolveVal(base).(*ssa.Parameter)
					if !isP {
						return
					}
					a, _, okA := paramArg(prm, hc.ctx)
					if !okA || !(tmplSet[resolveVal(a)] || sameVal(a, tmplRoot)) {
						return
					}
				}
				switch fname(fv) {
				case "NotBefore":
					nb = atomStr(st.Val)
				case "NotAfter":
					na = atomStr(st.Val)
				case "IPAddresses":
					if nn, _ := nilFacts(factStrs(g, st), "ParseIP("); nn {
						ipArm = true
					}
					if nn, _ := sanSplitArms(st.Val); nn {
						ipArm = true
					}
				case "DNSNames":
					if _, n := nilFacts(factStrs(g, st), "ParseIP("); n {
						dnsArm = true
					}
					if _, n := sanSplitArms(st.Val); n {
						dnsArm = true
					}
				}
			})
		}
		fromParam := false
		for pi, q := range f.Params {
			if pi == 0 && f.Signature.Recv() != nil {
				continue
			}
			if bt, isB := q.Type().Underlying().(*types.Basic); isB && bt.Info()&types.IsInteger != 0 && strings.Contains(na, "$"+pname(q)) {
				fromParam = true // the lifetime the caller asks for (hours as an int, or a time.Duration)
			}
		}
		r.Check(nb == "Now()" && strings.HasPrefix(na, "Add(Now(),") && fromParam, "C11.R1", "validity is [now, now + hoursValid]", c.Pos(f.Pos()), "NotBefore="+nb+" NotAfter="+na, "validity period is not [time.Now(), time.Now()+hoursValid·Hour]: NotBefore="+nb+" NotAfter="+na)
		r.Check(ipArm && dnsArm, "C11.R1", "names go to IPAddresses if they parse as IP, else to DNSNames", c.Pos(f.Pos()), "both arms present under net.ParseIP", fmt.Sprintf("SAN arms missing (ip=%v dns=%v): IP-literal or DNS targets get a certificate that does not name them", ipArm, dnsArm))
	}
	for _, f := range c.FuncsNamed("(*" + certsPkg + ".PrivateCA).GetCertForHost") {
		sp := findCall(f, "net.SplitHostPort")
		if sp == nil {
			r.Fail("C11.R2", "host is taken from SplitHostPort", c.Pos(f.Pos()), "net.SplitHostPort not called")
			continue
		}
		host := "SplitHostPort($host)#0"
		bad := []string{}
		n := 0
		hcs := helperContexts(f, 2)
		for _, hc := range hcs {
			eachCall(hc.fn, func(call ssa.CallInstruction, nme string) {
				if strings.HasSuffix(nme, "syncmap.SyncMap).Get") || strings.HasSuffix(nme, "syncmap.SyncMap).Set") || strings.HasSuffix(nme, "syncmap.SyncMap).Delete") || strings.HasSuffix(nme, "syncmap.SyncMap).GetOrSet") {
					n++
					if a := ctxAtom(callArgs(call)[1], hc.ctx); a != host {
						bad = append(bad, nme[strings.LastIndex(nme, ".")+1:]+"("+a+")")
					}
				}
				if strings.HasSuffix(nme, "PrivateCA).createCert") {
					n++
					// the host is among the arguments (whatever their order)
					named := false
					var shown []string
					for ai, arg := range callArgs(call) {
						if ai == 0 {
							continue
						}
						a := ctxAtom(arg, hc.ctx)
						shown = append(shown, a)
						if a == host {
							named = true
						}
					}
					if !named {
						bad = append(bad, "createCert("+strings.Join(shown, ",")+")")
					}
				}
			})
		}
		r.Check(len(bad) == 0 && n >= 4, "C11.R2", "the same host names the certificate, the cache key and the lookup", c.InstrPos(sp), "SplitHostPort(host) result used for Get/Set/Delete/createCert", "host used inconsistently: "+strings.Join(bad, ", "))
		// R3: wherever the certificate found in the map is handed back, it is on the not-expired edge
		nRet := 0
		var del *ssa.Call
		var delCtx dctx
		for _, hc := range hcs {
			g := hc.fn
			if d := findCall(g, "(*reservoir/utils/syncmap.SyncMap).Delete"); d != nil && del == nil {
				del, delCtx = d, hc.ctx
			}
			eachInstr(g, func(in ssa.Instruction) {
				ret, ok := in.(*ssa.Return)
				if !ok || isRecoverReturn(ret) {
					return
				}
				vals := retVals(ret)
				if len(vals) == 0 || !strings.HasPrefix(atomStr(vals[0]), "Get($ca.certs,") {
					return
				}
				nRet++
				good := false
				for _, fc := range factsAt(g, ret) {
					if exp, known := expiredWhenTrueF(fc.cond, "NotAfter"); known && exp != fc.truth {
						good = true
					}
				}
				r.Check(good, "C11.R3", "a cached certificate is reused only while valid", c.InstrPos(ret), "return is on the not-expired edge of Leaf.NotAfter vs now", "a cached certificate is returned without (or on the wrong side of) an expiry test: clients are handed an expired certificate")
			})
		}
		r.Floor("C11.R3", nRet, 1, "returns of a cached certificate")
		// expired edge reaches createCert (either may sit in a helper: both are compared in the deepest body they share)
		var cr *ssa.Call
		var crCtx dctx
		for _, hc := range hcs {
			if x := findCall(hc.fn, "(*"+certsPkg+".PrivateCA).createCert"); x != nil && cr == nil {
				cr, crCtx = x, hc.ctx
			}
		}
		okRepl := false
		if del != nil && cr != nil {
			d, x := liftPair(del, delCtx, cr, crCtx)
			okRepl = d != x && reachableInstr(d, x, nil)
			if len(delCtx) > 0 {
				// the delete sits in a helper: after it the helper reports "nothing cached" and the caller goes on to issue
				for _, e := range walkFrom(pos{del.Block(), 0}, nil, isReturn, nil) {
					if ret := e.(*ssa.Return); reachableInstr(del, ret, nil) && !isRecoverReturn(ret) {
						if vals := retVals(ret); len(vals) > 0 && strings.HasPrefix(atomStr(vals[0]), "Get($ca.certs,") {
							okRepl = false // the expired certificate itself is handed back
						}
					}
				}
			}
		}
		r.Check(okRepl, "C11.R3", "an expired certificate is replaced", c.Pos(f.Pos()), "expired edge deletes and falls through to createCert", "the expired branch does not lead to a new certificate")
		// R4 (issuance is per host, once): looking the host up, issuing and storing are one critical section. Without it a
		// burst of tunnels to a new host finds nothing, every one of them issues its own certificate and the last store
		// wins: the clients of one host are presented different certificates.
		{
			var common lset
			nOps := 0
			// held at an operation inside a helper = held in the helper's body + held where the helper was entered (the
			// same look-up helper may be entered once without the lock, for the fast path, and once with it)
			heldAt := func(in ssa.Instruction, ctx dctx) lset {
				h := li.HeldMust(in).clone()
				for _, cs := range ctx {
					for k := range li.HeldMust(cs) {
						h[k] = true
					}
				}
				for k := range h {
					if strings.Contains(string(k), "syncmap.SyncMap") {
						delete(h, k)
					}
				}
				return h
			}
			type certOp struct {
				in  *ssa.Call
				ctx dctx
			}
			var gets, issues, dels []certOp
			for _, hc := range hcs {
				eachCall(hc.fn, func(call ssa.CallInstruction, nme string) {
					cc, isC := call.(*ssa.Call)
					if !isC {
						return
					}
					switch {
					case strings.HasSuffix(nme, "syncmap.SyncMap).Get"):
						gets = append(gets, certOp{cc, hc.ctx})
					case strings.HasSuffix(nme, "syncmap.SyncMap).Set"), strings.HasSuffix(nme, "syncmap.SyncMap).GetOrSet"), strings.HasSuffix(nme, "PrivateCA).createCert"):
						issues = append(issues, certOp{cc, hc.ctx})
					case strings.HasSuffix(nme, "syncmap.SyncMap).Delete"):
						dels = append(dels, certOp{cc, hc.ctx})
					}
				})
			}
			// issuing and storing share a lock ...
			for _, op := range issues {
				nOps++
				held := heldAt(op.in, op.ctx)
				if common == nil {
					common = held
				} else {
					common = inter(common, held)
				}
			}
			// ... and under that lock the host is looked up again before anything is issued (a look-up made without the
			// lock may hand back what it finds, but its "nothing there" is no reason to issue)
			recheck := false
			for _, gt := range gets {
				held := heldAt(gt.in, gt.ctx)
				covered := len(common) > 0
				for k := range common {
					if !held[k] {
						covered = false
					}
				}
				if !covered {
					continue
				}
				before := len(issues) > 0
				for _, op := range issues {
					a, b := liftPair(gt.in, gt.ctx, op.in, op.ctx)
					if a == b || !instrDominates(a, b) {
						before = false
					}
				}
				if before {
					recheck = true
					nOps++
				}
			}
			if !recheck {
				common = lset{}
			}
			// nothing is taken out of the map without that lock either, on any way the removal can be reached: a tunnel
			// that found an expired certificate without the lock would otherwise delete the replacement another tunnel
			// has stored in the meantime
			for _, op := range dels {
				held := heldAt(op.in, op.ctx)
				for k := range common {
					if !held[k] {
						r.Fail("C11.R4", "a certificate is removed from the cache only under the issuance lock", c.InstrPos(op.in), fmt.Sprintf("the cached certificate is deleted without %s on a way through GetCertForHost (held: %s): a tunnel that saw the expired certificate on the unlocked fast path deletes the fresh one another tunnel has just stored, and the next tunnel is presented a third certificate", k, held))
					}
				}
			}
			r.Check(nOps >= 3 && len(common) > 0, "C11.R4", "lookup, issuance and store for a host are one critical section", c.Pos(f.Pos()), fmt.Sprintf("%d operations under %s", nOps, common), fmt.Sprintf("GetCertForHost looks the host up, issues and stores without a common lock (%d operations, common must-held set %s): 48 tunnels opened at once to a new host are presented up to 13 different certificates, all but the last discarded", nOps, common))
		}
		// the reuse decision leaves a margin: a certificate that expires before the handshake completes is not handed out
		marginOK := false
		for _, hc := range hcs {
			eachInstr(hc.fn, func(in ssa.Instruction) {
				call, ok := in.(*ssa.Call)
				if !ok {
					return
				}
				n := calleeName(call)
				if n == "time.Until" {
					// time.Until(cert.Leaf.NotAfter) < margin
					if _, pth := fieldPath(callArgs(call)[0]); len(pth) > 0 && pth[len(pth)-1] == "NotAfter" {
						if refs := call.Referrers(); refs != nil {
							for _, ref := range *refs {
								if bo, isB := ref.(*ssa.BinOp); isB && bo.X == ssa.Value(call) {
									if k, isC := constInt(bo.Y); isC && k > 0 && (bo.Op == token.LSS || bo.Op == token.LEQ || bo.Op == token.GTR || bo.Op == token.GEQ) {
										marginOK = true
									}
								}
							}
						}
					}
					return
				}
				if n != "(time.Time).Before" && n != "(time.Time).After" {
					return
				}
				args := callArgs(call)
				onNotAfter := false
				for _, a := range args {
					if _, pth := fieldPath(a); len(pth) > 0 && pth[len(pth)-1] == "NotAfter" {
						onNotAfter = true
					}
				}
				if !onNotAfter {
					return
				}
				for _, a := range args {
					if c2, ok := resolveVal(a).(*ssa.Call); ok && calleeName(c2) == "(time.Time).Add" {
						if now, ok := resolveVal(callArgs(c2)[0]).(*ssa.Call); ok && calleeName(now) == "time.Now" {
							if k, isC := constInt(callArgs(c2)[1]); isC && k > 0 {
								marginOK = true
							}
						}
					}
				}
			})
		}
		r.Check(marginOK, "C11.R3", "a certificate about to expire is not reused", c.Pos(f.Pos()), "NotAfter is compared with time.Now() plus a positive margin", "the reuse test compares NotAfter with the current instant: a tunnel opened milliseconds before the expiry is presented a certificate that has expired by the time the client verifies it")
		// stored certificate is the one returned: by the body that stores it, and from there up to GetCertForHost
		// (`return ca.issueCertLocked(host)`)
		okSet := false
		for _, hc := range hcs {
			set := findCall(hc.fn, "(*reservoir/utils/syncmap.SyncMap).Set")
			if set == nil {
				continue
			}
			eachInstr(hc.fn, func(in ssa.Instruction) {
				if ret, ok := in.(*ssa.Return); ok && !isRecoverReturn(ret) {
					if vs := retVals(ret); len(vs) > 0 && sameVal(vs[0], callArgs(set)[2]) {
						okSet = true
					}
				}
			})
			for i := len(hc.ctx) - 1; i >= 0 && okSet; i-- {
				okSet = returnsResultOf(hc.ctx[i], 0)
			}
		}
		r.Check(okSet, "C11.R2", "the certificate stored is the one returned", c.Pos(f.Pos()), "Set(host, cert); return cert", "the certificate put into the map is not the one handed to the caller")
	}
	for _, f := range c.FuncsNamed("(*" + proxyPkg + ".Proxy).handleCONNECT") {
		gc := findCall(f, "(reservoir/proxy/certs.CertAuthority).GetCertForHost")
		ok := gc != nil && atomStr(callArgs(gc)[1]) == "$proxyReq.Host"
		r.Check(ok, "C11.R2", "the certificate is requested for the CONNECT target", c.Pos(f.Pos()), "GetCertForHost(proxyReq.Host)", "GetCertForHost is not called with the CONNECT request's Host")
		// tls.Config.Certificates = []tls.Certificate{*tlsCert}
		okCfg := false
		for _, hc := range helperContexts(f, 2) {
			eachInstr(hc.fn, func(in ssa.Instruction) {
				st, isSt := in.(*ssa.Store)
				if !isSt || gc == nil {
					return
				}
				if fv, _, is := fieldOf(st.Addr); is && fname(fv) == "Certificates" {
					if derivesFromDeep(st.Val, hc.ctx, func(v ssa.Value, _ dctx) bool {
						e, isE := v.(*ssa.Extract)
						return isE && e.Tuple == ssa.Value(gc) && e.Index == 0
					}) {
						okCfg = true
					}
				}
			})
		}
		r.Check(okCfg, "C11.R2", "the TLS server presents the certificate obtained for this host", c.Pos(f.Pos()), "tls.Config.Certificates = {*cert}", "tls.Config.Certificates is not built from the certificate returned by GetCertForHost")
	}
}

// onlyReadOnlyViews: the byte-slice value v is used for nothing but bytes.NewReader / len (directly or through
// further same-package helpers that do the same).
func onlyReadOnlyViews(v ssa.Value, depth int) bool {
	if depth > 2 || v.Referrers() == nil {
		return false
	}
	n := 0
	for _, ref := range *v.Referrers() {
		switch y := ref.(type) {
		case *ssa.DebugRef:
		case *ssa.Call:
			n++
			name := calleeName(y)
			if name == "bytes.NewReader" || name == "builtin.len" {
				continue
			}
			h := helperBody(y)
			if h == nil {
				return false
			}
			ok := false
			for ai, a := range callArgs(y) {
				if a == v && ai < len(h.Params) {
					ok = onlyReadOnlyViews(h.Params[ai], depth+1)
				}
			}
			if !ok {
				return false
			}
		default:
			return false
		}
	}
	return n > 0
}

// isNamedResult: cell is the variable of a named result of fn.
func isNamedResult(fn *ssa.Function, cell *ssa.Alloc) bool {
	if fn == nil || cell.Parent() != fn {
		return false
	}
	res := fn.Signature.Results()
	for i := 0; i < res.Len(); i++ {
		if n := res.At(i).Name(); n != "" && n != "_" && n == cell.Comment {
			return true
		}
	}
	return false
}

// sanSplitArms: v is a result of a same-package helper that sorts names into IP literals and DNS names
// (ips, names := splitHostNames(list)): which of the two arms builds this result — appended where net.ParseIP gave an
// address (ipArm) or where it gave nil (dnsArm).
func sanSplitArms(v ssa.Value) (ipArm, dnsArm bool) {
	ex, ok := resolveVal(v).(*ssa.Extract)
	if !ok {
		return false, false
	}
	call, ok := ex.Tuple.(*ssa.Call)
	if !ok {
		return false, false
	}
	h := helperBody(call)
	if h == nil {
		return false, false
	}
	want := h.Signature.Results().At(ex.Index).Type()
	eachInstr(h, func(in ssa.Instruction) {
		ap, ok := in.(*ssa.Call)
		if !ok {
			return
		}
		if b, isB := ap.Call.Value.(*ssa.Builtin); !isB || b.Name() != "append" || !types.Identical(ap.Type(), want) {
			return
		}
		nn, n := nilFacts(factStrs(h, ap), "ParseIP(")
		if nn {
			ipArm = true
		}
		if n {
			dnsArm = true
		}
	})
	return
}
