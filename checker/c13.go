package main

import (
	"fmt"
	"go/constant"
	"go/token"
	"go/types"
	"math"
	"strings"

	"golang.org/x/tools/go/ssa"
)

func init() { register("C13", checkC13) }

const janitorT = "(*" + cachePkg + ".cacheJanitor)."

// monotone evaluates how an integer expression moves when `age` (time since
// last access) and `size` grow: '+' non-decreasing, '-' non-increasing,
// '0' independent, '?' unknown.
type mono struct{ age, size byte }

func combineAdd(a, b byte) byte {
	switch {
	case a == '0':
		return b
	case b == '0':
		return a
	case a == b:
		return a
	}
	return '?'
}
func negate(a byte) byte {
	switch a {
	case '+':
		return '-'
	case '-':
		return '+'
	}
	return a
}

func monoOf(v ssa.Value, depth int) mono { return monoOfCtx(v, nil, depth) }

// monoOfCtx: monotonicity of v in (age, size); ctx is the chain of helper calls entered, so that a
// helper's parameters stand for the caller's arguments.
func monoOfCtx(v ssa.Value, ctx dctx, depth int) mono {
	if depth > 12 {
		return mono{'?', '?'}
	}
	v = unconvNum(v)
	if _, ok := constInt(v); ok {
		return mono{'0', '0'}
	}
	if prm, ok := v.(*ssa.Parameter); ok {
		if a, c2, ok := paramArg(prm, ctx); ok {
			return monoOfCtx(a, c2, depth+1)
		}
	}
	switch x := v.(type) {
	case *ssa.BinOp:
		a, b := monoOfCtx(x.X, ctx, depth+1), monoOfCtx(x.Y, ctx, depth+1)
		switch x.Op {
		case token.ADD:
			return mono{combineAdd(a.age, b.age), combineAdd(a.size, b.size)}
		case token.SUB:
			return mono{combineAdd(a.age, negate(b.age)), combineAdd(a.size, negate(b.size))}
		case token.MUL, token.QUO:
			// by a positive constant keeps direction
			if k, ok := constNum(x.Y); ok && k > 0 {
				return a
			}
			if k, ok := constNum(x.X); ok && k > 0 && x.Op == token.MUL {
				return b
			}
			if k, ok := constNum(x.Y); ok && k < 0 {
				return mono{negate(a.age), negate(a.size)}
			}
			return mono{'?', '?'}
		}
		return mono{'?', '?'}
	case *ssa.Call:
		n := calleeName(x)
		args := callArgs(x)
		switch n {
		case "(time.Duration).Milliseconds", "(time.Duration).Seconds", "(time.Duration).Microseconds", "(time.Duration).Nanoseconds", "(time.Duration).Minutes", "(time.Duration).Hours":
			return monoOfCtx(args[0], ctx, depth+1)
		case "(time.Time).Sub":
			// now.Sub(LastAccess): grows with age; LastAccess.Sub(now): shrinks
			if isLastAccessCtx(args[1], ctx) {
				return mono{'+', '0'}
			}
			if isLastAccessCtx(args[0], ctx) {
				return mono{'-', '0'}
			}
		case "time.Since":
			if isLastAccessCtx(args[0], ctx) {
				return mono{'+', '0'}
			}
		case "time.Until":
			if isLastAccessCtx(args[0], ctx) {
				return mono{'-', '0'}
			}
		}
		if _, ok := unixUnit[n]; ok {
			// LastAccess as a number shrinks as the age grows; the instant of the scan is a constant
			if isLastAccessCtx(args[0], ctx) {
				return mono{'-', '0'}
			}
			if isNowCtx(args[0], ctx, 0) {
				return mono{'0', '0'}
			}
		}
		// a helper computing the priority: evaluate what it returns (single return value)
		if sc := staticCallee(x); sc != nil {
			g := unwrapSynthetic(sc)
			if g != nil && g.Blocks != nil && isModPath(originPkgPath(g)) {
				res := mono{'0', '0'}
				n := 0
				eachInstr(g, func(in ssa.Instruction) {
					if ret, ok := in.(*ssa.Return); ok && len(ret.Results) == 1 {
						m := monoOfCtx(ret.Results[0], append(append(dctx{}, ctx...), x), depth+1)
						if n == 0 {
							res = m
						} else if m != res {
							res = mono{'?', '?'}
						}
						n++
					}
				})
				if n > 0 {
					return res
				}
			}
		}
		return mono{'?', '?'}
	case *ssa.UnOp:
		if x.Op == token.SUB {
			a := monoOfCtx(x.X, ctx, depth+1)
			return mono{negate(a.age), negate(a.size)}
		}
		if x.Op == token.MUL {
			if _, p := fieldPath(x); len(p) > 0 && p[len(p)-1] == "Size" {
				return mono{'0', '+'}
			}
		}
	case *ssa.Field:
		if _, p := fieldPath(x); len(p) > 0 && p[len(p)-1] == "Size" {
			return mono{'0', '+'}
		}
	}
	return mono{'?', '?'}
}

// ageRes follows the age term (now − LastAccess, in nanoseconds) through the arithmetic that makes the
// priority and reports how finely it still distinguishes two ages when it arrives: scale is "value per
// nanosecond of age", quantum the largest step (in ns of age) that some operation on the way collapsed
// onto one value — a unit-truncating accessor (Milliseconds, Microseconds), an integer division, a
// float→integer conversion. what names the operation that set the quantum. ok=false: v carries no age.
type ageRes struct {
	scale, quantum float64
	what           string
}

func constNum(v ssa.Value) (float64, bool) {
	v = unconvNum(v)
	if c, ok := v.(*ssa.Const); ok && c.Value != nil {
		switch c.Value.Kind() {
		case constant.Int, constant.Float:
			f, _ := constant.Float64Val(c.Value)
			return f, true
		}
	}
	return 0, false
}

func isIntegerType(t types.Type) bool {
	b, ok := t.Underlying().(*types.Basic)
	return ok && b.Info()&types.IsInteger != 0
}

func isFloatType(t types.Type) bool {
	b, ok := t.Underlying().(*types.Basic)
	return ok && b.Info()&types.IsFloat != 0
}

func (a ageRes) coarsen(step float64, what string) ageRes {
	if step > a.quantum {
		a.quantum, a.what = step, what
	}
	return a
}

func ageResOf(v ssa.Value, ctx dctx, depth int) (ageRes, bool) {
	if depth > 12 {
		return ageRes{}, false
	}
	switch x := v.(type) {
	case *ssa.ChangeType:
		return ageResOf(x.X, ctx, depth+1)
	case *ssa.Convert:
		a, ok := ageResOf(x.X, ctx, depth+1)
		if ok && isFloatType(x.X.Type()) && isIntegerType(x.Type()) && a.scale != 0 {
			a = a.coarsen(1/math.Abs(a.scale), "conversion of a fractional age to an integer")
		}
		return a, ok
	case *ssa.Parameter:
		if arg, c2, ok := paramArg(x, ctx); ok {
			return ageResOf(arg, c2, depth+1)
		}
	case *ssa.UnOp:
		if x.Op == token.SUB {
			return ageResOf(x.X, ctx, depth+1)
		}
	case *ssa.BinOp:
		switch x.Op {
		case token.ADD, token.SUB:
			if a, ok := ageResOf(x.X, ctx, depth+1); ok {
				return a, true
			}
			return ageResOf(x.Y, ctx, depth+1)
		case token.MUL:
			if k, ok := constNum(x.Y); ok {
				if a, ok := ageResOf(x.X, ctx, depth+1); ok {
					a.scale *= k
					return a, true
				}
			}
			if k, ok := constNum(x.X); ok {
				if a, ok := ageResOf(x.Y, ctx, depth+1); ok {
					a.scale *= k
					return a, true
				}
			}
		case token.QUO:
			if k, ok := constNum(x.Y); ok && k != 0 {
				if a, ok := ageResOf(x.X, ctx, depth+1); ok {
					a.scale /= k
					if isIntegerType(x.Type()) && a.scale != 0 {
						a = a.coarsen(1/math.Abs(a.scale), fmt.Sprintf("integer division by %v", k))
					}
					return a, true
				}
			}
		}
	case *ssa.Call:
		n := calleeName(x)
		args := callArgs(x)
		unit := func(ns float64, integer bool) (ageRes, bool) {
			a, ok := ageResOf(args[0], ctx, depth+1)
			if !ok {
				return a, false
			}
			a.scale /= ns
			if integer && a.scale != 0 {
				a = a.coarsen(1/math.Abs(a.scale), n)
			}
			return a, true
		}
		switch n {
		case "(time.Duration).Nanoseconds":
			return unit(1, true)
		case "(time.Duration).Microseconds":
			return unit(1e3, true)
		case "(time.Duration).Milliseconds":
			return unit(1e6, true)
		case "(time.Duration).Seconds":
			return unit(1e9, false)
		case "(time.Duration).Minutes":
			return unit(6e10, false)
		case "(time.Duration).Hours":
			return unit(3.6e12, false)
		case "(time.Time).Sub":
			if isLastAccessCtx(args[1], ctx) || isLastAccessCtx(args[0], ctx) {
				return ageRes{scale: 1, quantum: 1}, true
			}
		case "time.Since", "time.Until":
			if isLastAccessCtx(args[0], ctx) {
				return ageRes{scale: 1, quantum: 1}, true
			}
		}
		if ns, ok := unixUnit[n]; ok && isLastAccessCtx(args[0], ctx) {
			return ageRes{scale: 1 / ns, quantum: ns, what: n}, true
		}
		if sc := staticCallee(x); sc != nil {
			g := unwrapSynthetic(sc)
			if g != nil && g.Blocks != nil && isModPath(originPkgPath(g)) {
				var res ageRes
				found := false
				eachInstr(g, func(in ssa.Instruction) {
					if ret, ok := in.(*ssa.Return); ok && len(ret.Results) == 1 {
						if a, ok := ageResOf(ret.Results[0], append(append(dctx{}, ctx...), x), depth+1); ok {
							if !found || a.quantum > res.quantum {
								res = a
							}
							found = true
						}
					}
				})
				return res, found
			}
		}
	}
	return ageRes{}, false
}

// isNowCtx: v is an instant taken with time.Now() — directly, through a local, through a variable the
// enclosing function captured, or through a helper parameter bound to one.
func isNowCtx(v ssa.Value, ctx dctx, depth int) bool {
	if depth > 6 {
		return false
	}
	v = resolveVal(v)
	switch x := v.(type) {
	case *ssa.Call:
		return calleeName(x) == "time.Now"
	case *ssa.Parameter:
		if a, c2, ok := paramArg(x, ctx); ok {
			return isNowCtx(a, c2, depth+1)
		}
	case *ssa.FreeVar:
		if b := freeVarBinding(x); b != nil {
			return isNowCtx(b, ctx, depth+1)
		}
	case *ssa.UnOp:
		if x.Op != token.MUL {
			return false
		}
		cell := x.X
		if fv, ok := cell.(*ssa.FreeVar); ok {
			cell = freeVarBinding(fv)
		}
		if a, ok := cell.(*ssa.Alloc); ok {
			if st := storesTo(a); len(st) == 1 {
				return isNowCtx(st[0].Val, ctx, depth+1)
			}
		}
	}
	return false
}

// unixUnit: the Unix-epoch accessors of time.Time and the nanoseconds one unit of their result stands for.
var unixUnit = map[string]float64{
	"(time.Time).UnixNano":  1,
	"(time.Time).UnixMicro": 1e3,
	"(time.Time).UnixMilli": 1e6,
	"(time.Time).Unix":      1e9,
}

func isLastAccessCtx(v ssa.Value, ctx dctx) bool {
	_, p := ctxFieldPath(v, ctx)
	if len(p) > 0 && p[len(p)-1] == "LastAccess" {
		return true
	}
	if prm, ok := resolveVal(v).(*ssa.Parameter); ok {
		if a, c2, ok := paramArg(prm, ctx); ok {
			return isLastAccessCtx(a, c2)
		}
	}
	return isLastAccess(v)
}

func isLastAccess(v ssa.Value) bool {
	_, p := fieldPath(v)
	return len(p) > 0 && p[len(p)-1] == "LastAccess"
}

func checkC13(c *Ctx, r *Report) {
	r.Decided = []string{
		"R8 evictions started from a store run without the store's own shard lock (may-held set at the call has no shard lock), so no candidate is skipped because of the caller",
		"R1 every call of evict is control-dependent on size >= limit where size is the backend's byte counter and the limit is read live (atomic/config read), not a constructor-time copy",
		"R2 in evict's removal loop every removal is preceded, in the same iteration, by the exit test getCacheSize() <= target, and target is the limit × 0.8",
		"R3 victims are sorted by descending priority (comparator compares second argument's priority with the first's) and the loop walks from the front; priority is non-decreasing in age since last access and in size, and the age reaches it at the resolution LastAccess is recorded with (no truncating accessor, integer division or float-to-integer conversion collapses ages more than 1 ns apart)",
		"R4 cleanup re-evaluates expiry of the entry stored under the key after acquiring its lock (isExpired==true dominates the removal; no act-on-stale-check)",
		"R5 only keys whose metadata is expired at scan time are collected",
		"R6 every removal by the janitor (eviction and cleanup) happens with the key lock of that entry held exclusively — taken with TryLock (skip on failure) or by a dominating blocking Lock; whether waiting is permitted there is decided by C14",
		"R7 limit and interval consumers read the live setting (see C19.R4)",
		"R9 eviction takes a second look at the entry stored under the candidate's key after acquiring its lock (a cache-side call on that key gates the removal), as R4 demands of cleanup: an entry used again or replaced since the lock-free scan is not evicted on the strength of that scan",
	}
	r.NotDec = []string{"which entries actually remain (run-time populations)", "the 80 % arithmetic and weights as numbers", "eviction order among entries skipped because they are in use"}
	li := BuildLocks(c)
	// R8: a store that has to make room does so before it takes its own key's shard lock. The eviction only try-locks
	// its candidates: with the shard lock held by the store itself every entry of that shard is skipped — the least
	// recently used one included (a newer entry goes instead), and with a single shard nothing is evicted at all.
	nStoreEv := 0
	for _, f := range li.Fns {
		if originPkgPath(f) != cachePkg {
			continue
		}
		eachCall(f, func(call ssa.CallInstruction, n string) {
			if !strings.HasSuffix(n, "cacheJanitor).evict") {
				return
			}
			if strings.Contains(fnKey(f), "cacheJanitor") {
				return // the periodic cycle
			}
			nStoreEv++
			held := li.HeldMay(call.(ssa.Instruction))
			r.Check(!held["S"], "C13.R8", fmt.Sprintf("%s: room is made before the key's shard lock is taken (#%d)", fnKey(f), nStoreEv), c.InstrPos(call), "no shard lock may be held at the eviction call", "the store evicts while holding its own key's shard lock "+held.String()+": the candidates of that shard cannot be try-locked and are skipped, so a more recently used entry is evicted in place of the least recently used one, and with lock_shards=1 a store over the limit evicts nothing and the response is never cached")
		})
	}
	r.Floor("C13.R8", nStoreEv, 2, "evictions started from a store")

	// ---- R1
	nEv := 0
	for _, f := range li.Fns {
		if originPkgPath(f) != cachePkg {
			continue
		}
		eachCall(f, func(call ssa.CallInstruction, n string) {
			if n != janitorT+"evict" {
				return
			}
			nEv++
			key := fnKey(f) + ": evict is triggered only at/over the limit"
			limit := call.Common().Args[1]
			ls := atomStr(limit)
			fs := factStrs(f, call.(ssa.Instruction))
			ok := false
			for k := range fs {
				// size >= limit true  |  size < limit false
				if strings.HasSuffix(k, ">="+ls+"=true") || strings.HasSuffix(k, "<"+ls+"=false") {
					lhs := strings.TrimSuffix(strings.TrimSuffix(k, ">="+ls+"=true"), "<"+ls+"=false")
					if strings.Contains(lhs, "byteSize") || strings.Contains(lhs, "getCacheSize()") {
						ok = true
					}
				}
			}
			// the limit is read live (an atomic / config read), directly or inside a same-package helper
			isLiveRead := func(v ssa.Value, _ dctx) bool {
				c2, ok := v.(*ssa.Call)
				if !ok {
					return false
				}
				n2 := calleeName(c2)
				return strings.Contains(n2, "utils/atomics.") && strings.HasSuffix(n2, ").Get") || strings.HasSuffix(n2, "config.ConfigProp).Read") || strings.HasSuffix(n2, ").Load")
			}
			live := derivesFromDeep(limit, nil, isLiveRead)
			if prm, isP := resolveVal(limit).(*ssa.Parameter); isP && !live && prm.Parent() == f {
				// the limit is handed in: every caller reads it live for this call
				pi := -1
				for i, q := range f.Params {
					if q == prm {
						pi = i
					}
				}
				cs := li.Callers[f]
				live = len(cs) > 0 && pi >= 0
				for _, site := range cs {
					c3, okc := asCall(site.in)
					if !okc || pi >= len(callArgs(c3)) || !derivesFromDeep(callArgs(c3)[pi], nil, isLiveRead) {
						live = false
					}
				}
			}
			r.Check(ok && live, "C13.R1", key, c.InstrPos(call), "guarded by byte counter >= "+ls, "evict("+ls+") is not guarded by 'stored bytes >= live limit' (facts: "+strings.Join(keysOf(fs), " ∧ ")+"): eviction below the limit, or against a stale copy of the limit")
		})
	}
	r.Floor("C13.R1", nEv, 3, "evict call sites (memory store, file store, periodic)")

	// ---- R2/R3/R6 in evict
	for _, f := range c.FuncsNamed(janitorT + "evict") {
		var removes []*ssa.Call
		rmFn := map[*ssa.Call]*ssa.Function{}
		for _, g := range pkgGroup(li, f) {
			eachInstr(g, func(in ssa.Instruction) {
				if x, ok := in.(*ssa.Call); ok && strings.HasPrefix(atomStr(x), "removeEntry(") {
					removes = append(removes, x)
					rmFn[x] = g
				}
			})
		}
		// where a removal made in a helper or in a literal handed to a helper (tryLocked(key, func() error {...})) takes
		// place as far as evict's own loop is concerned
		sitesOf := func(rm *ssa.Call) []ssa.Instruction { return anchorSites(li, f, rmFn[rm], rm, 0) }
		factsOf := func(rm *ssa.Call) map[string]bool {
			fs := factStrsCtx(li, rmFn[rm], rm)
			for _, site := range sitesOf(rm) {
				for k := range factStrs(f, site) {
					fs[k] = true
				}
			}
			return fs
		}
		for i, rm := range removes {
			fs := factsOf(rm)
			okStop := false
			target := ""
			for k := range fs {
				if strings.HasPrefix(k, "getCacheSize()<=") && strings.HasSuffix(k, "=false") {
					okStop = true
					target = strings.TrimSuffix(strings.TrimPrefix(k, "getCacheSize()<="), "=false")
				}
				if strings.HasPrefix(k, "getCacheSize()>") && strings.HasSuffix(k, "=true") {
					okStop = true
					target = strings.TrimSuffix(strings.TrimPrefix(k, "getCacheSize()>"), "=true")
				}
			}
			r.Check(okStop, "C13.R2", fmt.Sprintf("evict: removal #%d only while size > target", i+1), c.InstrPos(rm), "dominated in the iteration by getCacheSize() <= target being false", "a removal in evict is not preceded by the 'target reached' test: eviction continues below the target")
			// the loop exit test is re-evaluated per iteration: the getCacheSize call sits inside the loop
			inLoop := reachableInstr(rm, rm, nil)
			for _, site := range sitesOf(rm) {
				if reachableInstr(site, site, nil) {
					inLoop = true
				}
			}
			if !inLoop {
				// the removal sits in a helper called from the loop
				for _, cs := range li.Callers[rmFn[rm]] {
					if reachableInstr(cs.in, cs.in, nil) {
						inLoop = true
					}
				}
			}
			r.Check(inLoop, "C13.R2", fmt.Sprintf("evict: removal #%d is inside the candidate loop", i+1), c.InstrPos(rm), "loop body", "removal is not in a loop")
			okTry := hasFact(fs, "TryLock(getLock(", true) || lockedBefore(li, rmFn[rm], rm, "Lock(getLock(")
			r.Check(okTry, "C13.R6", fmt.Sprintf("evict: removal #%d under the entry's key lock", i+1), c.InstrPos(rm), "TryLock(getLock(key)) == true, or a dominating Lock(getLock(key)) still held (whether waiting is allowed there is C14's question)", "an entry is evicted without holding its key lock")
			_ = target
		}
		r.Floor("C13.R2", len(removes), 1, "removals in evict")
		// R9: the candidate list is a lock-free snapshot; between the scan and the removal of a key the entry can be
		// used again or replaced by a fresh one. The removal therefore has to be gated, with the key lock held, by a
		// second look at the entry now stored under that key (a cache-side call on the key other than getLock /
		// removeEntry whose result decides whether the removal happens) — the counterpart of R4 for eviction.
		okRe, firstBad := len(removes) > 0, token.NoPos
		for _, rm := range removes {
			g := rmFn[rm]
			arg := atomStr(rm.Call.Args[0])
			fs := factsOf(rm)
			gated := false
			for k := range fs {
				if strings.HasPrefix(k, "TryLock(") || strings.HasPrefix(k, "Lock(") || strings.HasPrefix(k, "getCacheSize()") || strings.HasPrefix(k, "removeEntry(") || strings.HasPrefix(k, "phi:") {
					continue
				}
				// a call (other than the lock / removal calls) that takes the key as a direct argument, in a fact that
				// also mentions something else the scan recorded for this candidate (its metadata, a generation, ...):
				// a mere presence test of the key does not tell a fresh entry from the one that was ranked
				for _, name := range callsOnArg(k, arg) {
					if name == "getLock" || name == "removeEntry" || name == "TryLock" || name == "Unlock" || name == "Lock" {
						continue
					}
					if mentionsSibling(k, arg) {
						gated = true
					}
				}
				// or a helper that is handed the whole candidate (key and scanned metadata together)
				if dot := strings.LastIndex(arg, "."); dot > 0 {
					for _, name := range callsOnArg(k, arg[:dot]) {
						if name != "append" && name != "Info" && name != "Debug" {
							gated = true
						}
					}
				}
			}
			// the second look is itself taken with the lock held
			ordered := false
			if gated {
				eachInstr(g, func(in ssa.Instruction) {
					x, ok := in.(*ssa.Call)
					if !ok || x == rm {
						return
					}
					a := atomStr(x)
					if strings.HasPrefix(a, "getLock(") || strings.HasPrefix(a, "removeEntry(") || strings.HasPrefix(a, "TryLock(") || strings.HasPrefix(a, "Unlock(") || strings.HasPrefix(a, "Lock(") {
						return
					}
					look := false
					for _, name := range callsOnArg(a, arg) {
						if name != "getLock" && name != "removeEntry" && name != "TryLock" && name != "Unlock" && name != "Lock" {
							look = true
						}
					}
					if dot := strings.LastIndex(arg, "."); dot > 0 {
						for _, name := range callsOnArg(a, arg[:dot]) {
							if name != "append" && name != "Info" && name != "Debug" {
								look = true
							}
						}
					}
					if !look {
						return
					}
					if hasFact(factStrsCtx(li, g, x), "TryLock(getLock(", true) || lockedBefore(li, g, x, "Lock(getLock(") {
						ordered = true
					}
				})
			}
			if !(gated && ordered) {
				okRe = false
				if firstBad == token.NoPos {
					firstBad = rm.Pos()
				}
			}
		}
		pos9 := f.Pos()
		if firstBad != token.NoPos {
			pos9 = firstBad
		}
		r.Check(okRe, "C13.R9", "evict: every removal looks at the entry again under its key lock", c.Pos(pos9), "a call on the candidate's key (other than getLock/removeEntry), made with the key lock held, gates the removal", "the entry is evicted on the strength of the lock-free scan alone: an entry used again or replaced by a fresh one between the scan and its turn in the removal loop is evicted as if it were still the least recently used")
		// target = param * 0.8
		okTarget := false
		eachInstr(f, func(in ssa.Instruction) {
			bo, ok := in.(*ssa.BinOp)
			if !ok || bo.Op != token.MUL {
				return
			}
			cst, isC := bo.Y.(*ssa.Const)
			other := bo.X
			if !isC {
				cst, isC = bo.X.(*ssa.Const)
				other = bo.Y
			}
			if !isC || cst.Value == nil {
				return
			}
			fv, _ := constant.Float64Val(constant.ToFloat(cst.Value))
			if fv > 0.7999 && fv < 0.8001 && derivesFrom(other, func(v ssa.Value) bool { return v == ssa.Value(paramNamed(f, "maxCacheBytes")) }) {
				// and it flows into the stop test
				for _, b := range f.Blocks {
					if iff, ok := b.Instrs[len(b.Instrs)-1].(*ssa.If); ok {
						if derivesFrom(iff.Cond, func(v ssa.Value) bool { return v == ssa.Value(bo) }) {
							okTarget = true
						}
					}
				}
			}
		})
		r.Check(okTarget, "C13.R2", "evict: target is 80 % of the limit", c.Pos(f.Pos()), "stop test compares against maxCacheBytes × 0.8", "the eviction target is not the limit × 0.8")
		// comparator
		var sortCall *ssa.Call
		eachInstr(f, func(in ssa.Instruction) {
			if x, ok := in.(*ssa.Call); ok && calleeName(x) == "slices.SortFunc" {
				sortCall = x
			}
		})
		if sortCall == nil {
			r.Fail("C13.R3", "evict: candidates are ordered", c.Pos(f.Pos()), "no slices.SortFunc over the candidates: victims are taken in map order")
		} else {
			var cmpFn *ssa.Function
			switch v := sortCall.Call.Args[1].(type) {
			case *ssa.MakeClosure:
				cmpFn = v.Fn.(*ssa.Function)
			case *ssa.Function:
				cmpFn = v
			}
			desc := false
			if cmpFn != nil {
				eachInstr(cmpFn, func(in ssa.Instruction) {
					ret, ok := in.(*ssa.Return)
					if !ok {
						return
					}
					if call, ok := ret.Results[0].(*ssa.Call); ok && calleeName(call) == "cmp.Compare" {
						r0, p0 := fieldPath(call.Call.Args[0])
						r1, p1 := fieldPath(call.Call.Args[1])
						if len(p0) == 1 && len(p1) == 1 && p0[0] == "priority" && p1[0] == "priority" {
							if cellValue(r0) == ssa.Value(cmpFn.Params[1]) && cellValue(r1) == ssa.Value(cmpFn.Params[0]) {
								desc = true
							}
						}
					}
					// x.priority > y.priority style is not recognised: undecided handled below
				})
			}
			r.Check(desc, "C13.R3", "evict: highest priority first", c.InstrPos(sortCall), "comparator = cmp.Compare(second.priority, first.priority) (descending)", "the candidate order is not 'largest priority first' (comparator is not cmp.Compare(y.priority, x.priority))")
			// the removal loop walks the sorted slice from index 0 upwards: range loop over the sorted slice
			okWalk := false
			for _, rm := range removes {
				fs := factsOf(rm)
				if hasFact(fs, "rangeindex+1<len(", true) {
					okWalk = true
				}
			}
			r.Check(okWalk, "C13.R3", "evict: candidates are visited front to back", c.InstrPos(sortCall), "range loop over the sorted slice", "the removal loop does not walk the sorted candidates in order")
		}
		// priority monotone: the value stored into the priority field
		found := false
		for _, g := range pkgGroup(li, f) {
			eachInstr(g, func(in ssa.Instruction) {
				st, ok := in.(*ssa.Store)
				if !ok {
					return
				}
				fv, _, is := fieldOf(st.Addr)
				if !is || fname(fv) != "priority" {
					return
				}
				found = true
				m := monoOf(st.Val, 0)
				r.Check(m.age == '+' && (m.size == '+' || m.size == '0'), "C13.R3", "evict: priority grows with age (and size)", c.InstrPos(st), fmt.Sprintf("monotonicity age=%c size=%c", m.age, m.size), fmt.Sprintf("eviction priority is not non-decreasing in time-since-last-access and size (age=%c size=%c): least-recently-used entries are no longer evicted first", m.age, m.size))
				if m.age == '+' {
					// "least recently used first" for every order of access: two entries used at different
					// instants must get different ages, so the age reaches the priority at the resolution
					// LastAccess is recorded with (one nanosecond).
					a, ok := ageResOf(st.Val, nil, 0)
					r.Check(ok && a.quantum <= 1+1e-9, "C13.R3", "evict: the age enters the priority at full resolution", c.InstrPos(st), fmt.Sprintf("now−LastAccess reaches the priority with a quantum of %gns", a.quantum), fmt.Sprintf("eviction priority collapses ages up to %gns apart onto one value (%s): entries used within that span are evicted in arbitrary order, not least-recently-used first", a.quantum, a.what))
				}
			})
		}
		r.Check(found, "C13.R3", "evict: priority is computed", c.Pos(f.Pos()), "store into candidate.priority", "no priority is computed for the candidates")
	}

	// ---- R4/R5/R6 in cleanExpiredEntries
	for _, f := range c.FuncsNamed(janitorT + "cleanExpiredEntries") {
		var removes []*ssa.Call
		rmFn := map[*ssa.Call]*ssa.Function{}
		grp := pkgGroup(li, f)
		for _, g := range grp {
			eachInstr(g, func(in ssa.Instruction) {
				if x, ok := in.(*ssa.Call); ok && strings.HasPrefix(atomStr(x), "removeEntry(") {
					removes = append(removes, x)
					rmFn[x] = g
				}
			})
		}
		for i, rm := range removes {
			g := rmFn[rm]
			fs := factStrsCtx(li, g, rm)
			arg := atomStr(rm.Call.Args[0])
			okLock := keyTryLocked(fs, arg) || lockedBefore(li, g, rm, "Lock(getLock("+arg+"))") || lockedBefore(li, g, rm, "Lock(getLock(*,"+arg+"))")
			okExp := fs["isExpired("+arg+")=true"]
			// the re-check happens after the lock was taken: the isExpired call itself is made with the lock held
			okOrder := false
			eachInstr(g, func(in ssa.Instruction) {
				if x, ok := in.(*ssa.Call); ok && atomStr(x) == "isExpired("+arg+")" {
					if keyTryLocked(factStrsCtx(li, g, x), arg) || lockedBefore(li, g, x, "Lock(getLock("+arg+"))") || lockedBefore(li, g, x, "Lock(getLock(*,"+arg+"))") {
						okOrder = true
					}
				}
			})
			r.Check(okLock, "C13.R6", fmt.Sprintf("cleanup: removal #%d under the lock of the same key", i+1), c.InstrPos(rm), "TryLock(getLock(key)) == true, or a dominating Lock(getLock(key)) still held", "an expired entry is removed without holding its key lock")
			r.Check(okExp && okOrder, "C13.R4", fmt.Sprintf("cleanup: removal #%d re-checks expiry under the lock", i+1), c.InstrPos(rm), "isExpired(key) == true, evaluated after TryLock succeeded, dominates the removal", "the entry is removed on the strength of the lock-free scan alone: a fresh overwrite that landed between scan and removal is deleted")
		}
		r.Floor("C13.R4", len(removes), 1, "removals in cleanExpiredEntries")
		// isExpired implementations look at the entry currently stored under the key
		for _, ctor := range []string{"NewMemoryCache", "NewFileCache"} {
			for _, cf := range c.FuncsNamed(cachePkg + "." + ctor) {
				ok := false
				eachInstr(cf, func(in ssa.Instruction) {
					st, isSt := in.(*ssa.Store)
					if !isSt {
						return
					}
					fv, _, is := fieldOf(st.Addr)
					if !is || fname(fv) != "isExpired" {
						return
					}
					// a literal, or a method value (isExpired: c.isExpired)
					if cl, cps := funcValueBody(st.Val); cl != nil && len(cps) > 0 {
						lookup, before := false, false
						for _, ml := range lookupsIn(cl) {
							if sameVal(ml.key, cps[0]) {
								lookup = true
							}
						}
						eachInstr(cl, func(i2 ssa.Instruction) {
							if x, isC := i2.(*ssa.Call); isC {
								if exp, known := expiredWhenTrueF(x, "Expires"); known && exp {
									before = true
								}
							}
						})
						ok = lookup && before
					}
				})
				r.Check(ok, "C13.R4", ctor+": isExpired looks up the current entry and compares Expires with now", c.Pos(cf.Pos()), "map lookup by the key + Expires.Before(time.Now())", "isExpired does not evaluate the entry currently stored under the key")
			}
		}
		// R5: keys appended only when expired
		nApp := 0
		for _, g := range grp {
			eachInstr(g, func(in ssa.Instruction) {
				call, ok := in.(*ssa.Call)
				if !ok {
					return
				}
				b, isB := call.Call.Value.(*ssa.Builtin)
				if !isB || b.Name() != "append" {
					return
				}
				if !strings.Contains(call.Type().String(), "CacheKey") {
					return
				}
				nApp++
				good := false
				for _, fc := range factsAt(g, call) {
					if exp, known := expiredWhenTrueF(fc.cond, "Expires"); known && exp == fc.truth {
						good = true
					}
				}
				r.Check(good, "C13.R5", fmt.Sprintf("cleanup: key collected only if expired #%d", nApp), c.InstrPos(call), "append is on the Expires-before-now edge", "keys of entries that are not expired are collected for removal")
			})
		}
		// ... or put into a local set / map keyed by the cache key
		for _, g := range grp {
			eachInstr(g, func(in ssa.Instruction) {
				mu, ok := in.(*ssa.MapUpdate)
				if !ok {
					return
				}
				if _, tracked := trackedMapField(mu.Map); tracked {
					return
				}
				mt, isM := mu.Map.Type().Underlying().(*types.Map)
				if !isM || !strings.HasSuffix(canonTypes(mt.Key().String()), "cache.CacheKey") {
					return
				}
				nApp++
				good := false
				for _, fc := range factsAt(g, mu) {
					if exp, known := expiredWhenTrueF(fc.cond, "Expires"); known && exp == fc.truth {
						good = true
					}
				}
				r.Check(good, "C13.R5", fmt.Sprintf("cleanup: key collected only if expired #%d", nApp), c.InstrPos(mu), "the insert is on the Expires-before-now edge", "keys of entries that are not expired are collected for removal")
			})
		}
		r.Floor("C13.R5", nApp, 1, "key collection sites")
	}
	// R7: live limit read in ensureCacheSize
	for _, f := range c.FuncsNamed(janitorT + "ensureCacheSize") {
		ok := false
		readsLimit := func(g *ssa.Function) bool {
			found := false
			eachCall(g, func(call ssa.CallInstruction, n string) {
				if strings.HasSuffix(n, "config.ConfigProp).Read") {
					_, p := fieldPath(callArgs(call)[0])
					if len(p) > 0 && p[len(p)-1] == "MaxCacheSize" {
						found = true
					}
				}
			})
			return found
		}
		ok = readsLimit(f)
		if !ok {
			// the limit may be read by the periodic caller and handed in, once per cycle
			cs := li.Callers[f]
			ok = len(cs) > 0
			for _, site := range cs {
				c3, okc := asCall(site.in)
				if !okc {
					ok = false
					continue
				}
				fromRead := false
				for _, a := range callArgs(c3) {
					if derivesFrom(a, func(v ssa.Value) bool {
						c4, isC := v.(*ssa.Call)
						if !isC || !strings.HasSuffix(calleeName(c4), "config.ConfigProp).Read") {
							return false
						}
						_, p := fieldPath(callArgs(c4)[0])
						return len(p) > 0 && p[len(p)-1] == "MaxCacheSize"
					}) {
						fromRead = true
					}
				}
				if !fromRead {
					ok = false
				}
			}
		}
		// ... and the interval of the following cycles is the live setting: every Ticker.Reset in the janitor is given
		// a value read from cfg.Cache.CleanupInterval, not one received on the wake-up channel (a wake-up may be dropped
		// or overtaken, so its payload can be an older interval)
		nReset := 0
		for _, g := range li.Fns {
			if originPkgPath(g) != cachePkg || !strings.Contains(fnKey(g), "cacheJanitor") {
				continue
			}
			eachCall(g, func(call ssa.CallInstruction, n string) {
				if n != "(*time.Ticker).Reset" {
					return
				}
				nReset++
				arg := callArgs(call)[1]
				// j.interval = newInterval; ticker.Reset(j.interval): look at what was just stored into the field
				if u, isU := arg.(*ssa.UnOp); isU && u.Op == token.MUL {
					if fa, isFA := u.X.(*ssa.FieldAddr); isFA {
						eachInstr(g, func(i2 ssa.Instruction) {
							st, isSt := i2.(*ssa.Store)
							if !isSt {
								return
							}
							fa2, isFA2 := st.Addr.(*ssa.FieldAddr)
							if isFA2 && fa2.Field == fa.Field && (sameVal(fa2.X, fa.X) || types.Identical(fa2.X.Type(), fa.X.Type())) && instrDominates(st, call.(ssa.Instruction)) && st.Block() == call.(ssa.Instruction).Block() {
								arg = st.Val
							}
						})
					}
				}
				fromSetting := derivesFromDeep(arg, nil, func(v ssa.Value, _ dctx) bool {
					c4, isC := v.(*ssa.Call)
					if !isC || !strings.HasSuffix(calleeName(c4), "config.ConfigProp).Read") {
						return false
					}
					_, p := fieldPath(callArgs(c4)[0])
					return len(p) > 0 && p[len(p)-1] == "CleanupInterval"
				})
				fromChannel := derivesFrom(arg, func(v ssa.Value) bool {
					if u, isU := v.(*ssa.UnOp); isU && u.Op == token.ARROW {
						return true
					}
					if ex, isE := v.(*ssa.Extract); isE {
						if _, isSel := ex.Tuple.(*ssa.Select); isSel && ex.Index >= 2 {
							return true
						}
					}
					return false
				})
				r.Check(fromSetting && !fromChannel, "C13.R7", fmt.Sprintf("%s: the ticker is reset to the live cleanup interval (#%d)", fnKey(g), nReset), c.InstrPos(call), "Ticker.Reset(cfg.Cache.CleanupInterval.Read())", "the janitor resets its ticker to a value it received with the wake-up instead of the current setting: a wake-up that was dropped or overtaken leaves the following cleanup cycles on an interval that is no longer configured")
			})
		}
		r.Floor("C13.R7", nReset, 1, "Ticker.Reset sites in the janitor")
		r.Check(ok, "C13.R7", "periodic cycle reads the live max_cache_size", c.Pos(f.Pos()), "cfg.Cache.MaxCacheSize.Read() per cycle", "ensureCacheSize does not read the live limit")
	}
}

// lockedBefore reports whether a blocking exclusive acquisition whose atom starts with prefix dominates at
// in the same function and the shard class is still exclusively held there.
func lockedBefore(li *LockInfo, g *ssa.Function, at ssa.Instruction, prefix string) bool {
	if !li.HeldMustX(at)["S"] {
		return false
	}
	found := false
	eachInstr(g, func(in ssa.Instruction) {
		if x, ok := in.(*ssa.Call); ok && !found && x.Parent() == at.Parent() && instrDominates(x, at) {
			a := atomStr(x)
			if strings.HasPrefix(a, prefix) {
				found = true
			}
			// "Lock(getLock(*,key))": the lock getter may take the shard slice as well (getLock(locks, key))
			if i := strings.Index(prefix, "(*,"); i > 0 && strings.HasPrefix(a, prefix[:i+1]) && strings.HasSuffix(a, ","+prefix[i+3:]) {
				found = true
			}
		}
	})
	return found
}

// keyTryLocked: among the facts, a successful TryLock of the shard lock of key arg — TryLock(getLock(key)) or
// TryLock(getLock(<shards>, key)), whatever the lock getter is handed besides the key.
func keyTryLocked(fs map[string]bool, arg string) bool {
	for k := range fs {
		if !strings.HasPrefix(k, "TryLock(") || !strings.HasSuffix(k, "=true") {
			continue
		}
		inner := strings.TrimSuffix(strings.TrimPrefix(k, "TryLock("), ")=true")
		if strings.HasSuffix(inner, "("+arg+")") || strings.HasSuffix(inner, ","+arg+")") {
			return true
		}
	}
	return false
}

// callsOnArg returns the names of the calls in the rendered expression s that take arg as a direct argument.
func callsOnArg(s, arg string) []string {
	var out []string
	for off := 0; ; {
		i := strings.Index(s[off:], arg)
		if i < 0 {
			return out
		}
		at := off + i
		end := at + len(arg)
		off = end
		if at == 0 || (s[at-1] != '(' && s[at-1] != ',') || end >= len(s) || (s[end] != ')' && s[end] != ',') {
			continue
		}
		// back to the unmatched opening parenthesis
		depth, j := 0, at-1
		for ; j >= 0; j-- {
			if s[j] == ')' {
				depth++
			} else if s[j] == '(' {
				if depth == 0 {
					break
				}
				depth--
			}
		}
		if j < 0 {
			continue
		}
		e := j
		for j > 0 && isIdentByte(s[j-1]) {
			j--
		}
		if j < e {
			out = append(out, s[j:e])
		}
	}
}

// mentionsSibling reports whether s mentions, besides arg ("t41.key"), another component of the value arg is a
// component of ("t41.meta.LastAccess", "t41.gen").
func mentionsSibling(s, arg string) bool {
	dot := strings.LastIndex(arg, ".")
	if dot < 0 {
		return false
	}
	base := arg[:dot+1]
	for off := 0; ; {
		i := strings.Index(s[off:], base)
		if i < 0 {
			return false
		}
		at := off + i
		off = at + len(base)
		if at > 0 && (isIdentByte(s[at-1]) || s[at-1] == '.') {
			continue
		}
		if !strings.HasPrefix(s[at:], arg) || (at+len(arg) < len(s) && (isIdentByte(s[at+len(arg)]) || s[at+len(arg)] == '.')) {
			return true
		}
	}
}
