package main

import (
	"go/token"
	"go/types"
	"sort"
	"strings"

	"golang.org/x/tools/go/ssa"
)

// keySeg is one piece of a string built by formatting / concatenation: a constant, or a component value
// together with how it is rendered.
type keySeg struct {
	lit     string    // constant text (val == nil)
	val     ssa.Value // component
	escaped bool      // rendered by a quoting / escaping construct: its extent in the result is unambiguous
	how     string    // verb or function that renders it
}

var escapingFuncs = map[string]bool{
	"strconv.Quote": true, "strconv.QuoteToASCII": true, "net/url.QueryEscape": true, "net/url.PathEscape": true,
	"encoding/hex.EncodeToString": true, "encoding/base64.(*Encoding).EncodeToString": true,
}

// keySegments linearises the expression that builds a string: one constant-format Sprintf (operands rendered
// with %s / %v that are themselves such expressions are expanded), string concatenation, strings.Join of a
// literal list with a constant separator, an escaping function around a component, and a local strings.Builder
// filled in straight-line code. ok == false: the construction is none of these (not decided).
func keySegments(v ssa.Value, depth int) (segs []keySeg, ok bool) {
	if depth > 64 {
		return nil, false
	}
	// string(buf) of a byte buffer filled by append / strconv.Append*: look at the buffer
	if cv, isCv := v.(*ssa.Convert); isCv {
		if sl, isSl := cv.X.Type().Underlying().(*types.Slice); isSl {
			if bt, isB := sl.Elem().Underlying().(*types.Basic); isB && bt.Kind() == types.Uint8 {
				return byteBufSegments(cv.X, depth+1)
			}
		}
	}
	v = unconv(v)
	if s, isC := constString(v); isC {
		return []keySeg{{lit: s}}, true
	}
	switch x := v.(type) {
	case *ssa.BinOp:
		if x.Op == token.ADD {
			l, ok1 := keySegments(x.X, depth+1)
			r, ok2 := keySegments(x.Y, depth+1)
			if ok1 && ok2 {
				return append(l, r...), true
			}
			return nil, false
		}
	case *ssa.Call:
		name := calleeName(x)
		switch {
		case name == "fmt.Sprintf":
			format, ops, ok := sprintfOperands(x)
			if !ok || format == "" {
				return nil, false
			}
			locs := verbRe.FindAllStringIndex(format, -1)
			if len(locs) != len(ops) {
				return nil, false
			}
			pos := 0
			for i, loc := range locs {
				if loc[0] > pos {
					segs = append(segs, keySeg{lit: format[pos:loc[0]]})
				}
				verb := format[loc[0]:loc[1]]
				pos = loc[1]
				if verb == "%%" {
					segs = append(segs, keySeg{lit: "%"})
					continue
				}
				last := verb[len(verb)-1]
				switch last {
				case 'q', 'x', 'X':
					segs = append(segs, keySeg{val: ops[i], escaped: true, how: verb})
				case 's', 'v':
					if isStringType(ops[i].Type()) {
						if inner, ok := keySegments(ops[i], depth+1); ok {
							segs = append(segs, inner...)
							continue
						}
					}
					segs = append(segs, keySeg{val: ops[i], how: verb})
				default:
					segs = append(segs, keySeg{val: ops[i], how: verb})
				}
			}
			if pos < len(format) {
				segs = append(segs, keySeg{lit: format[pos:]})
			}
			return segs, true
		case name == "strconv.FormatInt" || name == "strconv.Itoa" || name == "strconv.FormatUint":
			// a decimal rendering: the component is the number
			return []keySeg{{val: x.Call.Args[0], how: "%d"}}, true
		case escapingFuncs[name]:
			return []keySeg{{val: x.Call.Args[len(x.Call.Args)-1], escaped: true, how: name}}, true
		case name == "strings.Join":
			sep, isC := constString(x.Call.Args[1])
			elems, ok := literalSliceElems(x.Call.Args[0])
			if !isC || !ok {
				return nil, false
			}
			for i, e := range elems {
				if i > 0 && sep != "" {
					segs = append(segs, keySeg{lit: sep})
				}
				inner, ok := keySegments(e, depth+1)
				if !ok {
					return nil, false
				}
				segs = append(segs, inner...)
			}
			return segs, true
		case name == "(*strings.Builder).String":
			return builderSegments(x, depth)
		}
		// a same-package helper that does nothing but build the string from its parameters
		// (keyString(scheme, method, host, path, query) = Sprintf("%s|%q|...", ...)): its construction with the
		// arguments put in the parameters' places
		if h := helperBody(x); h != nil && isStringType(x.Type()) {
			var only *ssa.Return
			n := 0
			eachInstr(h, func(in ssa.Instruction) {
				if ret, isRet := in.(*ssa.Return); isRet && !isRecoverReturn(ret) {
					only = ret
					n++
				}
			})
			if n == 1 && len(only.Results) == 1 {
				if inner, okI := keySegments(retVals(only)[0], depth+1); okI {
					args := callArgs(x)
					var out []keySeg
					good := len(inner) > 1
					for _, sg := range inner {
						if sg.val == nil {
							out = append(out, sg)
							continue
						}
						prm, isP := resolveVal(sg.val).(*ssa.Parameter)
						idx := -1
						if isP {
							for i, q := range h.Params {
								if q == prm {
									idx = i
								}
							}
						}
						if idx < 0 || idx >= len(args) {
							good = false
							break
						}
						if sg.escaped || !isStringType(args[idx].Type()) {
							out = append(out, keySeg{val: args[idx], escaped: sg.escaped, how: sg.how})
							continue
						}
						sub, okS := keySegments(args[idx], depth+1)
						if !okS {
							good = false
							break
						}
						out = append(out, sub...)
					}
					if good {
						return out, true
					}
				}
			}
		}
	}
	// anything else is one component
	if isStringType(v.Type()) || true {
		return []keySeg{{val: v, how: "raw"}}, true
	}
	return nil, false
}

func isStringType(t types.Type) bool {
	b, ok := t.Underlying().(*types.Basic)
	return ok && b.Info()&types.IsString != 0
}

// literalSliceElems returns the elements of a slice built from a literal ([]T{a, b, c}).
func literalSliceElems(v ssa.Value) ([]ssa.Value, bool) {
	sl, ok := unconv(v).(*ssa.Slice)
	if !ok {
		return nil, false
	}
	arr, ok := sl.X.(*ssa.Alloc)
	if !ok {
		return nil, false
	}
	type ent struct {
		i int64
		v ssa.Value
	}
	var ents []ent
	for _, ref := range *arr.Referrers() {
		switch r := ref.(type) {
		case *ssa.IndexAddr:
			idx, isC := constInt(r.Index)
			if !isC {
				return nil, false
			}
			for _, r2 := range *r.Referrers() {
				if st, ok := r2.(*ssa.Store); ok && st.Addr == ssa.Value(r) {
					ents = append(ents, ent{idx, st.Val})
				} else {
					return nil, false
				}
			}
		case *ssa.Slice, *ssa.DebugRef:
		default:
			return nil, false
		}
	}
	sort.Slice(ents, func(i, j int) bool { return ents[i].i < ents[j].i })
	var out []ssa.Value
	for i, e := range ents {
		if int64(i) != e.i {
			return nil, false
		}
		out = append(out, e.v)
	}
	return out, len(out) > 0
}

// builderSegments: the String() of a function-local strings.Builder whose writes form a straight line
// (each dominates the next, none in a loop, the builder's address goes nowhere else).
func builderSegments(str *ssa.Call, depth int) ([]keySeg, bool) {
	sb, ok := str.Call.Args[0].(*ssa.Alloc)
	if !ok || sb.Referrers() == nil {
		return nil, false
	}
	type wr struct {
		in   *ssa.Call
		segs []keySeg
	}
	var writes []wr
	for _, ref := range *sb.Referrers() {
		call, isCall := ref.(*ssa.Call)
		if !isCall {
			if _, isDbg := ref.(*ssa.DebugRef); isDbg {
				continue
			}
			return nil, false
		}
		if call == str {
			continue
		}
		switch calleeName(call) {
		case "(*strings.Builder).Grow", "(*strings.Builder).Len", "(*strings.Builder).Cap":
			continue
		case "(*strings.Builder).WriteString":
			inner, ok := keySegments(call.Call.Args[1], depth+1)
			if !ok {
				return nil, false
			}
			writes = append(writes, wr{call, inner})
		case "(*strings.Builder).WriteByte", "(*strings.Builder).WriteRune":
			c, isC := call.Call.Args[1].(*ssa.Const)
			if !isC || c.Value == nil {
				return nil, false
			}
			n, _ := constInt(c)
			writes = append(writes, wr{call, []keySeg{{lit: string(rune(n))}}})
		default:
			// Fprintf(&sb, …), a helper that receives the builder, Reset …: not decided
			return nil, false
		}
	}
	if len(writes) == 0 {
		return nil, false
	}
	sort.SliceStable(writes, func(i, j int) bool { return instrDominates(writes[i].in, writes[j].in) })
	var out []keySeg
	for i, w := range writes {
		if reachableInstr(w.in, w.in, nil) { // in a loop
			return nil, false
		}
		if i > 0 && !instrDominates(writes[i-1].in, w.in) {
			return nil, false // conditional write
		}
		out = append(out, w.segs...)
	}
	if !instrDominates(writes[len(writes)-1].in, str) {
		return nil, false
	}
	// every write lies on every path to String(): a dominating write that is skipped cannot exist, but a write
	// in a branch that does not dominate String() was rejected above.
	return out, true
}

func segsString(segs []keySeg) string {
	var b strings.Builder
	for _, s := range segs {
		if s.val == nil {
			b.WriteString(s.lit)
		} else if s.escaped {
			b.WriteString("‹" + s.how + "›")
		} else {
			b.WriteString("‹raw›")
		}
	}
	return b.String()
}

// fmtShape renders the construction of a string as a pattern ("bytes %d-%d/%d") and its operands, whether it is
// built by Sprintf, by concatenation with strconv conversions, or a mix.
func fmtShape(v ssa.Value) (pattern string, ops []ssa.Value, ok bool) {
	segs, ok := keySegments(v, 0)
	if !ok {
		return "", nil, false
	}
	var b strings.Builder
	for _, s := range segs {
		if s.val == nil {
			b.WriteString(strings.ReplaceAll(s.lit, "%", "%%"))
			continue
		}
		verb := s.how
		if !strings.HasPrefix(verb, "%") {
			verb = "%v"
		}
		b.WriteString(verb)
		ops = append(ops, unconv(s.val))
	}
	return b.String(), ops, true
}

// byteBufSegments linearises a []byte built by make / append(buf, s...) / append(buf, 'c') / strconv.AppendQuote(buf, s)
// / strconv.AppendInt(buf, n, 10) in straight-line code.
func byteBufSegments(v ssa.Value, depth int) ([]keySeg, bool) {
	if depth > 64 {
		return nil, false
	}
	switch x := v.(type) {
	case *ssa.MakeSlice:
		if k, isC := constInt(x.Len); isC && k == 0 {
			return nil, true
		}
		return nil, false
	case *ssa.Const:
		return nil, x.Value == nil // nil slice
	case *ssa.Call:
		if bi, isB := x.Call.Value.(*ssa.Builtin); isB && bi.Name() == "append" && len(x.Call.Args) == 2 {
			head, ok := byteBufSegments(x.Call.Args[0], depth+1)
			if !ok {
				return nil, false
			}
			tail := x.Call.Args[1]
			// append(buf, str...)
			if isStringType(tail.Type()) {
				inner, ok := keySegments(tail, depth+1)
				if !ok {
					return nil, false
				}
				return append(head, inner...), true
			}
			// append(buf, 'c', 'd'): a literal slice of constant bytes
			if elems, ok := literalSliceElems(tail); ok {
				var b []byte
				for _, e := range elems {
					k, isC := constInt(e)
					if !isC {
						return nil, false
					}
					b = append(b, byte(k))
				}
				return append(head, keySeg{lit: string(b)}), true
			}
			return nil, false
		}
		switch calleeName(x) {
		case "strconv.AppendQuote", "strconv.AppendQuoteToASCII":
			head, ok := byteBufSegments(x.Call.Args[0], depth+1)
			if !ok {
				return nil, false
			}
			return append(head, keySeg{val: x.Call.Args[1], escaped: true, how: calleeName(x)}), true
		case "strconv.AppendInt", "strconv.AppendUint":
			head, ok := byteBufSegments(x.Call.Args[0], depth+1)
			if !ok {
				return nil, false
			}
			return append(head, keySeg{val: x.Call.Args[1], how: "%d"}), true
		}
	}
	return nil, false
}
