package main

import (
	"fmt"
	"go/token"
	"strings"

	"golang.org/x/tools/go/ssa"
)

func init() { register("C03", checkC03) }

// hitStatus constants are looked up by name in package proxy.
func constValue(c *Ctx, pkg, name string) (int64, bool) {
	p := c.PkgBy[pkg]
	if p == nil {
		return 0, false
	}
	o := p.Types.Scope().Lookup(name)
	if o == nil {
		return 0, false
	}
	for _, m := range c.SSAPkg[pkg].Members {
		if nc, ok := m.(*ssa.NamedConst); ok && nc.Name() == name {
			return constInt(nc.Value)
		}
	}
	return 0, false
}

func checkC03(c *Ctx, r *Report) {
	r.Decided = []string{
		"R1 a result labelled HIT is constructed only on the Stale==false branch of the entry just returned by Cache.Get; on the stale branch every non-error return is preceded by an upstream fetch; X-Cache: HIT is emitted only for hitStatusHit",
		"R2 both backends compute Entry.Stale on every lookup as meta.Expires.Before(time.Now()) of the entry looked up in that call (sibling agreement)",
		"R3 GetExpiresOrDefault's decision table: max-age return ⇐ ¬force ∧ CC present ∧ maxAge>0 (not guarded by Expires); Expires return ⇐ ¬force ∧ Expires present; otherwise now+default",
		"R4 an unparseable Expires defines the directive (already expired) instead of leaving it absent",
		"R5 Age and ttl are computed from the served entry's own TimeWritten / stored header / Expires",
	}
	r.NotDec = []string{"that at most the lifetime elapses (clock arithmetic over histories)", "Age arithmetic", "duplicate / multi-line Expires semantics"}
	li := BuildLocks(c)
	_ = li
	hit, okH := constValue(c, proxyPkg, "hitStatusHit")
	reval, okR := constValue(c, proxyPkg, "hitStatusRevalidated")
	if !okH || !okR {
		r.Undecided("C03.R1", "hitStatus constants", "-", "unresolved anchors hitStatusHit/hitStatusRevalidated")
		return
	}

	// ---- R1: stores of hitStatusHit into fetchInfo.Status
	nHit := 0
	for _, f := range li.Fns {
		if originPkgPath(f) != proxyPkg {
			continue
		}
		eachInstr(f, func(in ssa.Instruction) {
			st, ok := in.(*ssa.Store)
			if !ok {
				return
			}
			fv, _, is := fieldOf(st.Addr)
			if !is || fname(fv) != "Status" || !strings.Contains(canonTypes(fv.Type().String()), "hitStatus") {
				return
			}
			k, isC := constInt(st.Val)
			if !isC {
				r.Fail("C03.R1", fnKey(f)+": non-constant hit status", c.InstrPos(st), "fetchInfo.Status is assigned a computed value: the HIT label can no longer be tied to the freshness branch")
				return
			}
			if k != hit {
				return
			}
			nHit++
			fs := factStrs(f, st)
			fresh := false
			for k := range fs {
				if strings.HasPrefix(k, "Get($f.cache,$key)#0.Stale=false") {
					fresh = true
				}
			}
			r.Check(fresh, "C03.R1", fnKey(f)+": HIT only when fresh", c.InstrPos(st), "store of hitStatusHit is on the Stale==false edge of the entry returned by Get in this function", "a result is labelled HIT (served without contacting the origin) outside the Stale==false branch: "+strings.Join(keysOf(fs), " ∧ "))
		})
	}
	r.Floor("C03.R1", nHit, 1, "constructions of a HIT result")
	for _, f := range c.FuncsNamed("(*" + proxyPkg + ".fetcher).getFromCacheOrFetch") {
		var get *ssa.Call
		eachInstr(f, func(in ssa.Instruction) {
			if x, ok := in.(*ssa.Call); ok && calleeName(x) == "("+cachePkg+".Cache).Get" {
				get = x
			}
		})
		if get == nil {
			r.Undecided("C03.R1", "getFromCacheOrFetch: Get", c.Pos(f.Pos()), "cache lookup not found")
			continue
		}
		// find the Stale load + If
		var staleIf *ssa.BasicBlock
		stalePositive := true
		for _, b := range f.Blocks {
			iff, ok := b.Instrs[len(b.Instrs)-1].(*ssa.If)
			if !ok {
				continue
			}
			cv, pos := stripNot(iff.Cond)
			if _, p := fieldPath(cv); len(p) == 1 && p[0] == "Stale" {
				staleIf = b
				stalePositive = pos
			}
		}
		if staleIf == nil {
			r.Fail("C03.R1", "getFromCacheOrFetch: branch on Stale", c.Pos(f.Pos()), "no branch on Entry.Stale: stale entries are served like fresh ones")
			continue
		}
		staleSucc := 0
		if !stalePositive {
			staleSucc = 1
		}
		isFetch := func(in ssa.Instruction) bool {
			x, ok := in.(*ssa.Call)
			return ok && (calleeName(x) == "(*"+proxyPkg+".fetcher).fetchUpstream" || calleeName(x) == "(*"+proxyPkg+".fetcher).sendRequestToUpstream")
		}
		exits := walkFrom(pos{staleIf.Succs[staleSucc], 0}, deepMarker(isFetch, 0), isReturn, nil)
		var bad []string
		for _, e := range exits {
			ret := e.(*ssa.Return)
			vals := retVals(ret)
			if len(vals) == 2 && !isNilConst(vals[1]) {
				continue // error return
			}
			bad = append(bad, c.InstrPos(e))
		}
		r.Check(len(bad) == 0, "C03.R1", "stale entry: origin is contacted before any result is returned", c.Pos(f.Pos()), "every non-error return on the Stale==true side passes fetchUpstream", "a stale entry can be returned without contacting the origin: return at "+strings.Join(bad, ", "))
		// revalidated label only on the stale side
		eachInstr(f, func(in ssa.Instruction) {
			st, ok := in.(*ssa.Store)
			if !ok {
				return
			}
			fv, _, is := fieldOf(st.Addr)
			if !is || fname(fv) != "Status" {
				return
			}
			if k, isC := constInt(st.Val); isC && k == reval {
				fs := factStrs(f, st)
				okS := false
				for k := range fs {
					if strings.HasPrefix(k, "Get($f.cache,$key)#0.Stale=true") {
						okS = true
					}
				}
				r.Check(okS, "C03.R1", "REVALIDATED only on the stale path", c.InstrPos(st), "on the Stale==true edge after fetchUpstream", "the revalidated label is assigned outside the stale path")
			}
		})
	}
	for _, f := range c.FuncsNamed(proxyPkg + ".addCacheHeaders") {
		found := false
		checkHit := func(fs map[string]bool, where string) {
			found = true
			okH := false
			for k := range fs {
				if strings.HasSuffix(k, fmt.Sprintf(".hitStatus==%d=true", hit)) {
					okH = true
				}
			}
			r.Check(okH, "C03.R1", "X-Cache: HIT only for hitStatusHit", where, "the \"HIT\" label is selected by hitStatus == hitStatusHit", "X-Cache: HIT is emitted for another hit status: "+strings.Join(keysOf(fs), " ∧ "))
		}
		for _, hc := range helperContexts(f, 2) {
			g := hc.fn
			eachInstr(g, func(in ssa.Instruction) {
				switch x := in.(type) {
				case *ssa.Phi:
					for i, e := range x.Edges {
						if s, isC := constString(e); isC && s == "HIT" {
							pred := x.Block().Preds[i]
							checkHit(ctxFactStrs(g, pred.Instrs[len(pred.Instrs)-1], hc.ctx), c.InstrPos(x))
						}
					}
				case *ssa.Return:
					if g == f || isRecoverReturn(x) {
						return
					}
					for _, v := range retVals(x) {
						if s, isC := constString(v); isC && s == "HIT" {
							checkHit(ctxFactStrs(g, x, hc.ctx), c.InstrPos(x))
						}
					}
				}
			})
		}
		r.Check(found, "C03.R1", "X-Cache label table", c.Pos(f.Pos()), "HIT label present", "no \"HIT\" label found in addCacheHeaders (anchor changed)")
	}

	// ---- R2: Stale computation in both backends
	nStale := 0
	for _, name := range []string{"(*" + cachePkg + ".MemoryCache).Get", "(*" + cachePkg + ".FileCache).Get", "(*" + cachePkg + ".MemoryCache).GetMetadata", "(*" + cachePkg + ".FileCache).GetMetadata"} {
		fs := c.FuncsNamed(name)
		if len(fs) == 0 {
			r.Undecided("C03.R2", name, "-", "unresolved anchor")
			continue
		}
		f := fs[0]
		// the value: for Get: store into Entry.Stale; for GetMetadata: result #1
		var staleVals []ssa.Value
		var at ssa.Instruction
		eachInstr(f, func(in ssa.Instruction) {
			switch x := in.(type) {
			case *ssa.Store:
				if fv, base, is := fieldOf(x.Addr); is && fname(fv) == "Stale" && strings.HasPrefix(structName(base.Type()), cachePkg+".Entry") {
					staleVals = append(staleVals, x.Val)
					at = x
				}
			case *ssa.Return:
				if strings.HasSuffix(name, "GetMetadata") && !isRecoverReturn(x) {
					vals := retVals(x)
					if len(vals) == 3 && isNilConst(vals[2]) {
						staleVals = append(staleVals, vals[1])
						at = x
					}
				}
			}
		})
		if len(staleVals) == 0 {
			r.Fail("C03.R2", name+": Stale is computed", c.Pos(f.Pos()), "the lookup does not set Entry.Stale / the stale result at all: every entry looks fresh forever")
			continue
		}
		for _, sv := range staleVals {
			nStale++
			// Every way the value can become true must be on the "Expires before now" side, and
			// every way it can become false on the other side.
			ok := false
			polarity := ""
			type setting struct {
				val  bool
				site ssa.Instruction
				fn   func() []fact
			}
			var sets []setting
			if phi, isPhi := sv.(*ssa.Phi); isPhi {
				for i, e := range phi.Edges {
					if b, isC := constBool(e); isC {
						pred := phi.Block().Preds[i]
						site := pred.Instrs[len(pred.Instrs)-1]
						sets = append(sets, setting{b, site, func() []fact { return factsAt(f, site) }})
					}
				}
			}
			if u, isU := sv.(*ssa.UnOp); isU && u.Op == token.MUL {
				for _, st := range storesTo(u.X) {
					if b, isC := constBool(st.Val); isC {
						st := st
						sets = append(sets, setting{b, st, func() []fact { return factsAt(f, st) }})
					} else if call, isCall := st.Val.(*ssa.Call); isCall {
						if exp, known := expiredWhenTrueF(call, "Expires"); known && exp {
							ok, polarity = true, "stale is assigned the comparison itself"
						}
					}
				}
			}
			if call, isCall := sv.(*ssa.Call); isCall {
				if exp, known := expiredWhenTrueF(call, "Expires"); known && exp {
					ok, polarity = true, "stale is the comparison itself"
				}
			}
			// one of the results of a look-up helper (entry, stale, err := c.lookup(key)): every return of the helper that
			// hands an entry back computes that result as the comparison
			viaHelperResult := func(v ssa.Value) bool {
				ex, isEx := resolveVal(v).(*ssa.Extract)
				if !isEx {
					return false
				}
				hcall, isC := ex.Tuple.(*ssa.Call)
				if !isC {
					return false
				}
				h := helperBody(hcall)
				if h == nil {
					return false
				}
				n, all := 0, true
				eachInstr(h, func(in ssa.Instruction) {
					ret, isRet := in.(*ssa.Return)
					if !isRet || isRecoverReturn(ret) {
						return
					}
					vals := retVals(ret)
					if ex.Index >= len(vals) {
						all = false
						return
					}
					if last := vals[len(vals)-1]; last.Type().String() == "error" && !isNilConst(last) {
						return // a failing return: no entry, nothing to be stale
					}
					n++
					rv := resolveVal(vals[ex.Index])
					if rc, isCall := rv.(*ssa.Call); isCall {
						if exp, known := expiredWhenTrueF(rc, "Expires"); known && exp {
							return
						}
					}
					all = false
				})
				return n > 0 && all
			}
			if viaHelperResult(sv) {
				ok, polarity = true, "stale is the comparison itself, computed by the look-up helper"
			}
			if u, isU := sv.(*ssa.UnOp); isU && u.Op == token.MUL {
				nSt, allSt := 0, true
				for _, st := range storesTo(u.X) {
					if b, isC := constBool(st.Val); isC && !b {
						continue // the `false` that accompanies a failing return
					}
					if ld, isLd := st.Val.(*ssa.UnOp); isLd && ld.Op == token.MUL && ld.X == u.X {
						continue // `return ..., stale, nil` with a named result: the cell is stored into itself
					}
					nSt++
					if !viaHelperResult(st.Val) {
						allSt = false
					}
				}
				if nSt > 0 && allSt {
					ok, polarity = true, "stale is the comparison itself, computed by the look-up helper"
				}
			}
			sawTrue := false
			allOK := len(sets) > 0
			for _, s := range sets {
				if !s.val {
					continue // the initial `false` is overwritten on the expired side
				}
				sawTrue = true
				good := false
				for _, fc := range s.fn() {
					if exp, known := expiredWhenTrueF(fc.cond, "Expires"); known && exp == fc.truth {
						good = true
					}
				}
				if !good {
					allOK = false
				}
			}
			if sawTrue && allOK {
				ok, polarity = true, "stale is set to true exactly on the 'Expires before now' edge"
			}
			r.Check(ok, "C03.R2", name+": Stale = Expires vs current clock", c.InstrPos(at), "derived from meta.Expires compared with time.Now() evaluated in this call ("+polarity+")", "Entry.Stale is not computed from the entry's Expires against time.Now() in this lookup")
		}
	}
	r.Floor("C03.R2", nStale, 4, "stale computations (2 backends × Get/GetMetadata)")

	// ---- R3: decision table of GetExpiresOrDefault, compared as a table: for every assignment of the
	// branch atoms the kind of lifetime returned must be the one the priority order prescribes
	for _, f := range c.FuncsNamed("(*" + headersPkg + ".HeaderDirectives).GetExpiresOrDefault") {
		bs := &boolSummer{li: li}
		isNowAdd := func(v ssa.Value) bool {
			call, ok := v.(*ssa.Call)
			if !ok || calleeName(call) != "(time.Time).Add" {
				return false
			}
			recv, ok := resolveVal(callArgs(call)[0]).(*ssa.Call)
			return ok && calleeName(recv) == "time.Now"
		}
		var kindOfVal func(v ssa.Value, vctx dctx, cond lits, pe map[*ssa.Phi]ssa.Value, depth int) string
		kindOf := func(p bsPath) string {
			if len(p.vals) == 0 {
				return "?"
			}
			return kindOfVal(p.vals[0], nil, p.cond, p.pe, 0)
		}
		kindOfVal = func(v ssa.Value, vctx dctx, cond lits, pe map[*ssa.Phi]ssa.Value, depth int) string {
			for i := 0; i < 4; i++ {
				if phi, ok := v.(*ssa.Phi); ok && pe != nil && pe[phi] != nil {
					v = pe[phi]
				}
			}
			// the value a helper hands back together with an ok flag (expires, ok := hd.declaredExpiry()): of the helper's
			// ways through, the one this path took — the one whose conditions the path shares — decides the source
			if ex, isEx := v.(*ssa.Extract); isEx && depth < 2 {
				if hcall, isC := ex.Tuple.(*ssa.Call); isC {
					if h := helperBody(hcall); h != nil {
						nenv := map[string]string{}
						for i, q := range h.Params {
							if a := callArgs(hcall); i < len(a) {
								nm, _ := normValueName(a[i], map[string]string{})
								nenv["$"+pname(q)] = nm
							}
						}
						if paths, okS := bs.summarise(h, nenv, 1); okS {
							kinds := map[string]bool{}
							for _, q := range paths {
								consistent := true
								for a, val := range q.cond {
									if pv, has := cond[a]; !has || pv != val {
										consistent = false
									}
								}
								if consistent && ex.Index < len(q.vals) {
									kinds[kindOfVal(q.vals[ex.Index], append(append(dctx{}, vctx...), hcall), q.cond, q.pe, depth+1)] = true
								}
							}
							if len(kinds) == 1 {
								for k := range kinds {
									return k
								}
							}
						}
					}
				}
			}
			fromMax, fromExp, fromDef := false, false, false
			derivesFromDeep(v, vctx, func(x ssa.Value, cx dctx) bool {
				if _, pth := ctxFieldPath(x, cx); len(pth) > 0 && pth[len(pth)-1] == "maxAge" {
					fromMax = true
				}
				if call, ok := x.(*ssa.Call); ok && strings.HasSuffix(calleeName(call), "headers.Header).Value") {
					if _, pth := ctxFieldPath(callArgs(call)[0], cx); len(pth) > 0 && pth[len(pth)-1] == "Expires" {
						fromExp = true
					}
				}
				if prm, ok := x.(*ssa.Parameter); ok && prm.Parent() == f && pname(prm) == "defaultCacheMaxAge" {
					fromDef = true
				}
				return false
			})
			switch {
			case fromMax && !fromExp && !fromDef && isNowAdd(v):
				return "max-age"
			case fromExp && !fromMax && !fromDef:
				return "Expires"
			case fromDef && !fromMax && !fromExp && isNowAdd(v):
				return "default"
			}
			return "other(" + atomStr(v) + ")"
		}
		atoms, rows, ok := bs.kindTable(f, kindOf)
		if !ok {
			r.Undecided("C03.R3", "lifetime decision table", c.Pos(f.Pos()), "GetExpiresOrDefault has a loop or too many branch atoms: its decision table is not enumerated")
			continue
		}
		classify := func(a string) string {
			switch {
			case a == "$forceDefaultCacheMaxAge":
				return "force"
			case strings.HasPrefix(a, "IsPresent(") && strings.Contains(a, ".CacheControl"):
				return "cc"
			case strings.HasSuffix(a, ".maxAge>0"):
				return "pos"
			case strings.HasPrefix(a, "IsPresent(") && strings.Contains(a, ".Expires"):
				return "exp"
			}
			return ""
		}
		var bad []string
		seenKinds := map[string]bool{}
		for _, row := range rows {
			v := specVars(row.assign, classify)
			want := "default"
			switch {
			case v["force"]:
				want = "default"
			case v["cc"] && v["pos"]:
				want = "max-age"
			case v["exp"]:
				want = "Expires"
			}
			seenKinds[row.kind] = true
			if row.kind != want {
				bad = append(bad, fmt.Sprintf("[%s] yields %s, want %s", lits(row.assign).String(), row.kind, want))
			}
		}
		if len(bad) > 3 {
			bad = append(bad[:3], fmt.Sprintf("… %d more rows", len(bad)-3))
		}
		r.Check(len(bad) == 0, "C03.R3", "lifetime source follows force > max-age > Expires > default for every branch outcome", c.Pos(f.Pos()), fmt.Sprintf("%d rows over atoms %v", len(rows), atoms), "the lifetime decision table deviates from the priority order (forced default, else positive max-age, else Expires — also when it is in the past or zero — else default): "+strings.Join(bad, "; "))
		r.Check(seenKinds["max-age"] && seenKinds["Expires"] && seenKinds["default"], "C03.R3", "all three lifetime sources exist", c.Pos(f.Pos()), "max-age, Expires, default", fmt.Sprintf("missing lifetime source: %v", keysOf(seenKinds)))
		r.Floor("C03.R3", len(rows), 8, "rows of the lifetime decision table")
	}
	// the force flag and default passed by the caller are the live settings
	for _, f := range c.FuncsNamed("(*" + proxyPkg + ".fetcher).handleUpstream200") {
		eachCall(f, func(call ssa.CallInstruction, n string) {
			if n != "(*"+headersPkg+".HeaderDirectives).GetExpiresOrDefault" {
				return
			}
			s := atomStr(call.(ssa.Value))
			ok := strings.Contains(s, "Read(&$f.cfg.Proxy.CachePolicy.ForceDefaultMaxAge)") && strings.Contains(s, "Read(&$f.cfg.Proxy.CachePolicy.DefaultMaxAge)")
			r.Check(ok, "C03.R3", "lifetime uses the live force/default settings", c.InstrPos(call), "ForceDefaultMaxAge.Read(), DefaultMaxAge.Read()", "GetExpiresOrDefault is not given the live force_default_max_age / default_max_age settings: "+s)
			// and the result is what Cache() stores as expiry
			stored := false
			eachCall(f, func(c2 ssa.CallInstruction, n2 string) {
				if n2 == "("+cachePkg+".Cache).Cache" && len(c2.Common().Args) >= 3 && c2.Common().Args[2] == call.(ssa.Value) {
					stored = true
				}
			})
			r.Check(stored, "C03.R3", "the computed lifetime is the stored expiry", c.InstrPos(call), "passed as Cache()'s expires argument", "the expiry handed to Cache() is not GetExpiresOrDefault's result")
		})
	}

	// ---- R4
	for _, f := range c.FuncsNamed(headersPkg + ".ParseHeaderDirective") {
		// every pass through the `case "Expires"` arm defines hd.Expires.value, and one of the
		// stored values is the parsed date (directly, or through a same-package parsing helper)
		var okStore, failStore bool
		isExpStore := func(in ssa.Instruction) bool {
			st, ok := in.(*ssa.Store)
			if !ok {
				return false
			}
			_, p := fieldPath(st.Addr)
			return len(p) >= 2 && p[len(p)-2] == "Expires" && p[len(p)-1] == "value"
		}
		isTimeParse := func(v ssa.Value) bool {
			call, ok := v.(*ssa.Call)
			if !ok {
				return false
			}
			if calleeName(call) == "time.Parse" || calleeName(call) == "net/http.ParseTime" {
				return true
			}
			h := unwrapSynthetic(staticCallee(call))
			if h == nil || h.Blocks == nil || originPkgPath(h) != headersPkg {
				return false
			}
			found := false
			eachInstr(h, func(i2 ssa.Instruction) {
				if ret, ok := i2.(*ssa.Return); ok && !isRecoverReturn(ret) {
					for _, rv := range retVals(ret) {
						if derivesFrom(rv, func(w ssa.Value) bool {
							c2, ok := w.(*ssa.Call)
							return ok && (calleeName(c2) == "time.Parse" || calleeName(c2) == "net/http.ParseTime")
						}) {
							found = true
						}
					}
				}
			})
			return found
		}
		var arm *ssa.BasicBlock
		for _, blk := range f.Blocks {
			iff, ok := blk.Instrs[len(blk.Instrs)-1].(*ssa.If)
			if !ok {
				continue
			}
			if bo, ok := iff.Cond.(*ssa.BinOp); ok && bo.Op == token.EQL {
				if s1, ok := constString(bo.Y); ok && s1 == "Expires" {
					arm = blk
				} else if s2, ok := constString(bo.X); ok && s2 == "Expires" {
					arm = blk
				}
			}
		}
		eachInstr(f, func(in ssa.Instruction) {
			if !isExpStore(in) {
				return
			}
			if derivesFrom(in.(*ssa.Store).Val, isTimeParse) {
				okStore = true
			}
		})
		if arm != nil {
			// leaving the arm = reaching a block that dominates the case test (the loop header) or a return
			escaped := false
			walkFrom(pos{arm.Succs[0], 0}, func(in ssa.Instruction) bool {
				if isExpStore(in) {
					return true
				}
				if in.Block() != arm && in.Block().Dominates(arm) {
					escaped = true
					return true
				}
				if _, isRet := in.(*ssa.Return); isRet {
					escaped = true
				}
				return false
			}, nil, nil)
			failStore = !escaped
		}
		r.Check(okStore, "C03.R4", "parsed Expires is recorded", c.Pos(f.Pos()), "success edge stores the date", "no store of the parsed Expires date")
		r.Check(failStore, "C03.R4", "unparseable Expires is recorded as expired, not absent", c.Pos(f.Pos()), "every path through the Expires arm stores hd.Expires.value", "an unparseable Expires leaves the directive absent: the response gets the default lifetime instead of counting as already expired")
	}

	// ---- R5
	for _, f := range c.FuncsNamed(proxyPkg + ".addCacheHeaders") {
		n := 0
		eachCall(f, func(call ssa.CallInstruction, nme string) {
			if nme != proxyPkg+".getCurrentAge" {
				return
			}
			n++
			a := call.Common().Args
			r0, p0 := fieldPath(a[0])
			r1, p1 := fieldPath(a[1])
			ok := sameVal(r0, r1) && strings.Join(p0, ".") == "Metadata.Object.Header" && strings.Join(p1, ".") == "Metadata.TimeWritten"
			r.Check(ok, "C03.R5", "Age from the served entry's stored header and TimeWritten", c.InstrPos(call), "both arguments are fields of the same entry", "Age is computed from something other than the served entry's own stored header / TimeWritten")
		})
		r.Floor("C03.R5", n, 1, "getCurrentAge call sites")
	}
	for _, f := range c.FuncsNamed(proxyPkg + ".makeCacheStatusHeader") {
		ok := false
		eachCall(f, func(call ssa.CallInstruction, nme string) {
			if nme == "time.Until" {
				_, p := fieldPath(call.Common().Args[0])
				if strings.Join(p, ".") == "Metadata.Expires" {
					ok = true
				}
			}
		})
		r.Check(ok, "C03.R5", "ttl from the served entry's Expires", c.Pos(f.Pos()), "time.Until(entry.Metadata.Expires)", "ttl is not computed from the served entry's Expires")
	}
}
