package main

import (
	"fmt"
	"go/token"
	"go/types"
	"sort"
	"strconv"
	"strings"

	"golang.org/x/tools/go/ssa"
)

func init() { register("C04", checkC04) }

// conjuncts decomposes a boolean built with && into its atoms (value, truth).
func conjuncts(fn *ssa.Function, v ssa.Value, depth int) []fact {
	if depth > 6 {
		return []fact{{v, true}}
	}
	v2, positive := stripNot(v)
	phi, ok := v2.(*ssa.Phi)
	if !ok || !positive {
		return []fact{{v2, positive}}
	}
	idx := -1
	for i, e := range phi.Edges {
		if b, isC := constBool(e); isC && !b {
			continue
		}
		if idx >= 0 {
			return []fact{{v2, true}} // not an &&-chain
		}
		idx = i
	}
	if idx < 0 {
		return []fact{{v2, true}}
	}
	pred := phi.Block().Preds[idx]
	out := factsAt(fn, pred.Instrs[len(pred.Instrs)-1])
	return append(out, conjuncts(fn, phi.Edges[idx], depth+1)...)
}

// disjuncts: what is known when v is known false — for a || b || c every disjunct is false.
func disjuncts(fn *ssa.Function, v ssa.Value, depth int) []fact {
	v2, positive := stripNot(v)
	if depth > 6 {
		return []fact{{v2, !positive}}
	}
	phi, ok := v2.(*ssa.Phi)
	if !ok || !positive {
		return []fact{{v2, !positive}}
	}
	idx := -1
	for i, e := range phi.Edges {
		if b, isC := constBool(e); isC && b {
			continue
		}
		if idx >= 0 {
			return []fact{{v2, false}} // not an ||-chain
		}
		idx = i
	}
	if idx < 0 {
		return []fact{{v2, false}}
	}
	pred := phi.Block().Preds[idx]
	out := factsAt(fn, pred.Instrs[len(pred.Instrs)-1])
	return append(out, disjuncts(fn, phi.Edges[idx], depth+1)...)
}

func factList(fs []fact) []string {
	var o []string
	for _, f := range fs {
		o = append(o, fmt.Sprintf("%s=%v", atomStr(f.cond), f.truth))
	}
	sort.Strings(o)
	return o
}

func checkC04(c *Ctx, r *Report) {
	r.Decided = []string{
		"R6 parsed max-age seconds are bounded (<= MaxInt64/1e9) on every path before the multiplication that turns them into a Duration, so a positive max-age cannot wrap to a negative / tiny lifetime",
		"R7 HTTP dates in package headers are parsed with net/http.ParseTime (IMF-fixdate, RFC 850 and asctime), not with a single layout",
		"R8 every max-age directive is judged where it is parsed: the value of that iteration is tested against one second and the short side sets no-cache (or raises a flag that is never lowered and becomes no-cache after the loop) — a repeated directive cannot hide a max-age=0",
		"R1 every store into the cache from package proxy is dominated by shouldResponseBeCached()==true, and that predicate is exactly ShouldCache(live ignore_cache_control) ∧ StatusCode==200 ∧ Method==GET (no conjunct missing, none added)",
		"R2 ShouldCache: every refusal is gated by ignore_cache_control==false (except the Range guard) and refusals exist for the no-cache flag, max-age<1 and a past Expires (Expires only without a positive max-age)",
		"R3 the directive table of parseCacheControl contains no-store, no-cache and private, compared after a case fold; the parser receives all Cache-Control lines; a parse failure leaves the header 'present, not storable'",
		"R4 handleUpstream200 is called only on the StatusCode==200 arm; the default arm returns (nil,nil) (relay, no store)",
		"R5 the cache is read only on the coalescable path (¬Range ∧ GET) or right after a store/revalidation",
	}
	r.NotDec = []string{"that a stored entry is then actually reused (C03)", "quoted-string / parameter syntax inside one directive", "interplay with request histories"}
	li := BuildLocks(c)

	// ---- R1
	statusConjunct := false
	nStore := 0
	guardFns := map[*ssa.Function]*ssa.Call{}
	for _, f := range li.Fns {
		if originPkgPath(f) != proxyPkg {
			continue
		}
		eachCall(f, func(call ssa.CallInstruction, n string) {
			if n != "("+cachePkg+".Cache).Cache" {
				return
			}
			nStore++
			var guard *ssa.Call
			eachInstr(f, func(in ssa.Instruction) {
				if x, ok := in.(*ssa.Call); ok && calleeName(x) == "(*"+proxyPkg+".fetcher).shouldResponseBeCached" {
					guard = x
				}
			})
			if guard == nil {
				// the predicate under whatever name and shape (method or function): a same-package bool helper on whose
				// true edge the store lies and that consults ShouldCache
				for _, fc := range factsAt(f, call.(ssa.Instruction)) {
					x, ok := fc.cond.(*ssa.Call)
					if !ok || !fc.truth {
						continue
					}
					h := helperBody(x)
					if h == nil || h.Signature.Results().Len() != 1 || !isBoolType(h.Signature.Results().At(0).Type()) {
						continue
					}
					if findCall(h, "(*"+headersPkg+".HeaderDirectives).ShouldCache") != nil {
						guard = x
					}
				}
			}
			ok := guard != nil && guardedByTruth(f, call.(ssa.Instruction), guard, true)
			if ok {
				guardFns[unwrapSynthetic(staticCallee(guard))] = guard
			}
			r.Check(ok, "C04.R1", fnKey(f)+": Cache() is gated", c.InstrPos(call), "dominated by shouldResponseBeCached()==true", "a response is stored without passing shouldResponseBeCached()")
		})
	}
	r.Floor("C04.R1", nStore, 1, "cache store call sites in package proxy")
	bs := &boolSummer{li: li}
	var guardList []*ssa.Function
	for g := range guardFns {
		if g != nil {
			guardList = append(guardList, g)
		}
	}
	if len(guardList) == 0 {
		guardList = c.FuncsNamed("(*" + proxyPkg + ".fetcher).shouldResponseBeCached")
	}
	for _, f := range guardList {
		liveIgnore := false
		ignoreParam := ""
		for pi, q := range f.Params {
			if bt, isB := q.Type().Underlying().(*types.Basic); isB && bt.Kind() == types.Bool {
				// the setting may be read by the caller and handed in
				if gc := guardFns[f]; gc != nil && pi < len(callArgs(gc)) {
					a := atomStr(callArgs(gc)[pi])
					if strings.Contains(a, "IgnoreCacheControl") && strings.Contains(a, "Read(") {
						ignoreParam = "$" + pname(q)
					}
				}
			}
		}
		classify := func(a string) string {
			switch {
			case strings.HasPrefix(a, "ShouldCache("):
				if strings.Contains(a, "IgnoreCacheControl") && strings.Contains(a, "Read(") {
					liveIgnore = true
				}
				if ignoreParam != "" && strings.Contains(a, ignoreParam) {
					liveIgnore = true
				}
				return "shouldCache"
			case strings.HasSuffix(a, ".StatusCode==200"):
				statusConjunct = true
				return "status200"
			case strings.HasSuffix(a, `.Method=="GET"`):
				return "methodGET"
			}
			return ""
		}
		ok, detail, _ := bs.checkTable(f, 0, classify, func(v map[string]bool) (bool, bool) {
			return v["shouldCache"] && v["status200"] && v["methodGET"], true
		})
		r.Check(ok, "C04.R1", "shouldResponseBeCached = ShouldCache ∧ 200 ∧ GET", c.Pos(f.Pos()), detail, "the store predicate is not exactly ShouldCache ∧ StatusCode==200 ∧ Method==GET: "+detail)
		r.Check(liveIgnore, "C04.R1", "ShouldCache receives the live ignore_cache_control setting", c.Pos(f.Pos()), "IgnoreCacheControl.Read()", "ShouldCache is not given cfg.Proxy.CachePolicy.IgnoreCacheControl.Read()")
	}

	// ---- R2: the whole truth table of ShouldCache (helpers expanded)
	maxAgeWholeSeconds := fieldAlwaysMultipleOf(li, headersPkg, "cacheControl", "maxAge", 1000000000)
	for _, f := range c.FuncsNamed("(*" + headersPkg + ".HeaderDirectives).ShouldCache") {
		ignoreName := "$ignoreCacheControl"
		if len(f.Params) >= 2 {
			ignoreName = "$" + pname(f.Params[1])
		}
		classify := func(a string) string {
			switch {
			case a == ignoreName:
				return "ignore"
			case strings.Contains(a, "IsPresent(") && strings.Contains(a, ".CacheControl"):
				return "ccPresent"
			case strings.Contains(a, "IsPresent(") && strings.Contains(a, ".Expires"):
				return "expPresent"
			case strings.Contains(a, "IsPresent(") && strings.Contains(a, ".Range"):
				return "rangePresent"
			case strings.HasSuffix(a, ".noCache"):
				return "noCache"
			case strings.HasSuffix(a, ".maxAge>0"):
				return "maxAgePos"
			case maxAgeWholeSeconds && maxAgeAboveSubSecond(a):
				// `maxAge >= time.Second`: the same test as `maxAge > 0` for a lifetime that is always a whole number of seconds
				return "maxAgePos"
			case strings.HasPrefix(a, "Before(") && strings.Contains(a, ".Expires") && strings.Contains(a, "Now()") && strings.Index(a, ".Expires") < strings.Index(a, "Now()"):
				return "expPast"
			case strings.HasPrefix(a, "After(Now()") && strings.Contains(a, ".Expires"):
				return "expPast"
			case strings.HasPrefix(a, "After(") && strings.Contains(a, ".Expires") && strings.Contains(a, "Now()") && strings.Index(a, ".Expires") < strings.Index(a, "Now()"):
				return "!expPast"
			}
			return ""
		}
		spec := func(v map[string]bool) (bool, bool) {
			switch {
			case v["rangePresent"]:
				return false, true
			case v["ignore"]:
				return true, true
			case v["ccPresent"]:
				if v["noCache"] {
					return false, true
				}
				return v["maxAgePos"], true
			default:
				return !(v["expPresent"] && v["expPast"]), true
			}
		}
		ok, detail, n := bs.checkTable(f, 0, classify, spec)
		r.Check(ok, "C04.R2", "ShouldCache implements the storability table", c.Pos(f.Pos()), detail, "ShouldCache deviates from: store iff no Range marker and (directives ignored, or Cache-Control present without no-cache/no-store/private and max-age>0, or no Cache-Control and no past Expires): "+detail)
		r.Floor("C04.R2", n, 32, "rows of ShouldCache's truth table")
	}

	// ---- R3 directive table
	table := map[string]bool{}
	qualified := map[string]bool{} // directive -> its argument form (name=...) is recognised too
	folded := true
	var tablePos string
	for _, f := range li.Fns {
		if !strings.HasPrefix(fnKey(f), headersPkg+".parseCacheControl") {
			continue
		}
		eachInstr(f, func(in ssa.Instruction) {
			st, ok := in.(*ssa.Store)
			if !ok {
				return
			}
			fv, _, is := fieldOf(st.Addr)
			if !is || fname(fv) != "noCache" {
				return
			}
			if b, isC := constBool(st.Val); !isC || !b {
				return
			}
			// the equality tests whose true edge can reach this store
			for _, b := range f.Blocks {
				iff, ok := b.Instrs[len(b.Instrs)-1].(*ssa.If)
				if !ok {
					continue
				}
				// the test may be a membership predicate over a constant table (isUnstorableDirective(name))
				var lits []string
				var other ssa.Value
				trueIdx := 0
				if cv, positive := stripNot(iff.Cond); cv != nil {
					if call, isCall := cv.(*ssa.Call); isCall {
						if h := helperBody(call); h != nil {
							if pi, consts, okM := membershipPredicate(h); okM && pi < len(callArgs(call)) {
								for _, k := range consts {
									if s, err := strconv.Unquote(k); err == nil {
										lits = append(lits, s)
									}
								}
								other = callArgs(call)[pi]
								if !positive {
									trueIdx = 1
								}
							}
						}
					}
				}
				if len(lits) == 0 {
					bo, ok := iff.Cond.(*ssa.BinOp)
					if !ok || bo.Op != token.EQL {
						continue
					}
					lit, isLit := constString(bo.Y)
					other = bo.X
					if !isLit {
						lit, isLit = constString(bo.X)
						other = bo.Y
					}
					if !isLit {
						continue
					}
					lits = []string{lit}
				}
				for _, lit := range lits {
					if len(walkFrom(pos{b.Succs[trueIdx], 0}, nil, isInstr(st), nil)) > 0 && len(b.Succs[trueIdx].Preds) >= 1 {
						// reachable from the true edge without passing another test's false... accept
						table[lit] = true
						tablePos = c.InstrPos(st)
						// is the value compared the directive's NAME (text before "="), so that private="Set-Cookie" is private?
						if derivesFrom(other, func(v ssa.Value) bool {
							c2, ok := v.(*ssa.Call)
							if !ok {
								return false
							}
							switch calleeName(c2) {
							case "strings.Cut", "strings.SplitN", "strings.Split", "strings.Index", "strings.IndexByte":
								for _, a := range c2.Call.Args[1:] {
									if sep, ok := constString(a); ok && sep == "=" {
										return true
									}
									if k, ok := constInt(a); ok && k == '=' {
										return true
									}
								}
							}
							return false
						}) {
							qualified[lit] = true
						}
						if !callsInDerivation(other)["strings.ToLower"] && !callsInDerivation(other)["strings.ToUpper"] {
							folded = false
						}
					}
				}
			}
		})
	}
	// argument forms recognised by a prefix test (strings.HasPrefix / CutPrefix(directive, "private=")) that leads to the flag
	for _, f := range li.Fns {
		if !strings.HasPrefix(fnKey(f), headersPkg+".parseCacheControl") {
			continue
		}
		var flagStores []ssa.Instruction
		eachInstr(f, func(in ssa.Instruction) {
			if st, ok := in.(*ssa.Store); ok {
				if fv, _, is := fieldOf(st.Addr); is && fname(fv) == "noCache" {
					if b, isC := constBool(st.Val); isC && b {
						flagStores = append(flagStores, in)
					}
				}
			}
		})
		for _, b := range f.Blocks {
			iff, ok := b.Instrs[len(b.Instrs)-1].(*ssa.If)
			if !ok {
				continue
			}
			cv, positive := stripNot(iff.Cond)
			var call *ssa.Call
			if ex, isEx := cv.(*ssa.Extract); isEx {
				call, _ = ex.Tuple.(*ssa.Call)
			} else {
				call, _ = cv.(*ssa.Call)
			}
			if call == nil || (calleeName(call) != "strings.HasPrefix" && calleeName(call) != "strings.CutPrefix") {
				continue
			}
			pfx, isC := constString(call.Call.Args[1])
			if !isC || !strings.HasSuffix(pfx, "=") {
				continue
			}
			idx := 0
			if !positive {
				idx = 1
			}
			for _, fsIn := range flagStores {
				if len(walkFrom(pos{b.Succs[idx], 0}, nil, isInstr(fsIn), nil)) > 0 {
					qualified[strings.TrimSuffix(pfx, "=")] = true
				}
			}
		}
	}
	var names []string
	for k := range table {
		names = append(names, k)
	}
	sort.Strings(names)
	for _, want := range []string{"no-cache", "private"} {
		r.Check(qualified[want], "C04.R3", "the argument form "+want+"=\"field\" is "+want, tablePos, "the name before '=' is what is compared (or a prefix test sets the flag)", "the Cache-Control parser recognises '"+want+"' only as a bare word: a response marked "+want+"=\"Set-Cookie\" is stored and replayed to other clients, including the very field the origin singled out")
	}
	for _, want := range []string{"no-store", "no-cache", "private"} {
		r.Check(table[want], "C04.R3", "directive table contains "+want, tablePos, "sets the non-storable flag", "the Cache-Control parser does not treat '"+want+"' as non-storable (table: "+strings.Join(names, ",")+")")
	}
	r.Check(folded && len(table) > 0, "C04.R3", "directive names are compared case-insensitively", tablePos, "compared value passes strings.ToLower", "directive names are compared without a case fold: 'No-Store' is not recognised")
	for _, f := range c.FuncsNamed(headersPkg + ".ParseHeaderDirective") {
		var pc *ssa.Call
		eachInstr(f, func(in ssa.Instruction) {
			if x, ok := in.(*ssa.Call); ok && calleeName(x) == headersPkg+".parseCacheControl" {
				pc = x
			}
		})
		if pc == nil {
			r.Undecided("C04.R3", "parseCacheControl call", c.Pos(f.Pos()), "not found")
			continue
		}
		calls := callsInDerivation(pc.Call.Args[0])
		allLines := calls["strings.Join"] || calls["(net/http.Header).Values"]
		// or: the call sits in a loop over the value slice
		firstOnly := false
		derivesFrom(pc.Call.Args[0], func(v ssa.Value) bool {
			if ia, ok := v.(*ssa.IndexAddr); ok {
				if k, isC := constInt(ia.Index); isC && k == 0 {
					firstOnly = true
				}
			}
			return false
		})
		r.Check(allLines && !firstOnly, "C04.R3", "all Cache-Control lines are parsed", c.InstrPos(pc), "argument is strings.Join(values, ...) of the header's value slice", "only the first Cache-Control line reaches the parser (values[0]): directives on a second line are ignored")
		// parse failure defines the directive
		errv := extractOf(pc, 1)
		okFail := false
		eachInstr(f, func(in ssa.Instruction) {
			st, ok := in.(*ssa.Store)
			if !ok || errv == nil {
				return
			}
			_, p := fieldPath(st.Addr)
			if len(p) >= 2 && p[len(p)-2] == "CacheControl" && p[len(p)-1] == "value" && onlyWhenNil(f, st, errv, false) {
				// stored value must carry noCache: true
				if derivesFrom(st.Val, func(v ssa.Value) bool { b, isC := constBool(v); return isC && b }) {
					okFail = true
				}
			}
		})
		r.Check(okFail, "C04.R3", "unparseable Cache-Control is not treated as absent", c.InstrPos(pc), "the failure edge stores a non-storable CacheControl", "when parseCacheControl fails the header counts as absent, so 'no-store, max-age=abc' is stored with the default lifetime")
	}

	// ---- R6: a positive max-age stays positive. Seconds parsed from the header are turned into a time.Duration by a
	// multiplication with 1e9; without an upper bound on the seconds the product wraps (max-age=31536000000, a year in
	// milliseconds, becomes negative => treated as max-age<1 => not stored; 18446744074 becomes 0.29s).
	nMul := 0
	// the parser, the literals in it and the same-package helpers it calls (parseMaxAge(arg))
	ccFns := map[*ssa.Function]bool{}
	for _, f := range li.Fns {
		if strings.HasPrefix(fnKey(f), headersPkg+".parseCacheControl") {
			for _, hc := range helperContexts(f, 2) {
				ccFns[hc.fn] = true
			}
		}
	}
	for _, f := range li.Fns {
		if !ccFns[f] {
			continue
		}
		eachInstr(f, func(in ssa.Instruction) {
			bo, ok := in.(*ssa.BinOp)
			if !ok || bo.Op != token.MUL {
				return
			}
			k, isC := constInt(bo.Y)
			x := bo.X
			if !isC {
				k, isC = constInt(bo.X)
				x = bo.Y
			}
			if !isC || k < 1000 {
				return
			}
			fromParse := derivesFromDeep(x, nil, func(v ssa.Value, _ dctx) bool {
				c2, ok := v.(*ssa.Call)
				return ok && (calleeName(c2) == "strconv.ParseInt" || calleeName(c2) == "strconv.ParseUint" || calleeName(c2) == "strconv.Atoi")
			})
			if !fromParse {
				return
			}
			nMul++
			// an upper bound on the operand: a dominating fact  x > K = false  /  x <= K  /  x < K  with K*k within int64,
			// the operand is the result of min(x, K), a merge of bounded alternatives, or the result of a same-package
			// helper all of whose returns are bounded in one of these ways
			limit := int64(9223372036854775807) / k
			var boundedAbove func(fn *ssa.Function, site ssa.Instruction, x ssa.Value, depth int) bool
			boundedAbove = func(fn *ssa.Function, site ssa.Instruction, x ssa.Value, depth int) bool {
				if depth > 4 {
					return false
				}
				if kk, isK := constInt(x); isK {
					return kk <= limit
				}
				xs := atomStr(unconvNum(x))
				for kf := range factStrs(fn, site) {
					// canonical forms from normAtom: "<x>>K=false"
					if strings.HasPrefix(kf, xs+">") && strings.HasSuffix(kf, "=false") {
						var kk int64
						if _, err := fmt.Sscanf(strings.TrimSuffix(strings.TrimPrefix(kf, xs+">"), "=false"), "%d", &kk); err == nil && kk <= limit {
							return true
						}
					}
				}
				switch y := unconvNum(x).(type) {
				case *ssa.Call:
					if b, isB := y.Call.Value.(*ssa.Builtin); isB && b.Name() == "min" {
						for _, a := range y.Call.Args {
							if kk, isK := constInt(a); isK && kk <= limit {
								return true
							}
						}
					}
					if h := helperBody(y); h != nil && y.Type().String() != "" {
						if _, isTuple := y.Type().(*types.Tuple); !isTuple {
							return helperResultBounded(h, 0, func(ret *ssa.Return, v ssa.Value) bool { return boundedAbove(h, ret, v, depth+1) })
						}
					}
				case *ssa.Extract:
					if call, isCall := y.Tuple.(*ssa.Call); isCall {
						if h := helperBody(call); h != nil {
							return helperResultBounded(h, y.Index, func(ret *ssa.Return, v ssa.Value) bool { return boundedAbove(h, ret, v, depth+1) })
						}
					}
				case *ssa.Phi:
					all := len(y.Edges) > 0
					for i, e := range y.Edges {
						pred := y.Block().Preds[i]
						last := pred.Instrs[len(pred.Instrs)-1]
						okE := boundedAbove(fn, last, e, depth+1)
						// the edge itself may be the bounded side of the test that ends the predecessor block
						if iff, isIf := last.(*ssa.If); isIf && !okE {
							es := atomStr(unconvNum(e))
							if a, pos := normAtom(iff.Cond, nil); strings.HasPrefix(a, es+">") {
								var kk int64
								if _, err := fmt.Sscanf(strings.TrimPrefix(a, es+">"), "%d", &kk); err == nil && kk <= limit {
									// edge index 0 = condition true; bounded when (x>K) is false on this edge
									for si, sc := range pred.Succs {
										if sc == y.Block() && ((si == 0) == pos) == false {
											okE = true
										}
									}
								}
							}
						}
						if !okE {
							all = false
						}
					}
					return all
				}
				return false
			}
			bounded := boundedAbove(f, in, x, 0)
			r.Check(bounded, "C04.R6", fmt.Sprintf("%s: seconds are bounded before they are scaled to a Duration (#%d)", fnKey(f), nMul), c.InstrPos(in), fmt.Sprintf("operand <= %d on every path", limit), fmt.Sprintf("the parsed max-age is multiplied by %d without an upper bound: values above %d seconds wrap around (a large positive max-age becomes negative or tiny, and the response is not stored or goes stale at once)", k, limit))
		})
	}
	r.Floor("C04.R6", nMul, 1, "seconds-to-Duration conversions in the Cache-Control parser")

	// ---- R8: every max-age directive is judged on its own. A field may carry the directive more than once
	// (`max-age=0, max-age=3600`, or two Cache-Control lines): a value below one second anywhere means "do not store".
	// The test is made on the value parsed in that iteration, and its "short" side sets no-cache, or a flag that is
	// only ever raised and turns into no-cache after the loop. A test made after the loop on the stored lifetime sees
	// only the last directive.
	nParse := 0
	for f := range ccFns {
		if !strings.HasPrefix(fnKey(f), headersPkg+".parseCacheControl") {
			continue // the loop body (the function itself or the literal a range-over-func loop becomes)
		}
		eachInstr(f, func(in ssa.Instruction) {
			call, ok := in.(*ssa.Call)
			if !ok {
				return
			}
			parses := false
			switch calleeName(call) {
			case "strconv.ParseInt", "strconv.ParseUint", "strconv.Atoi":
				parses = true
			default:
				if h := helperBody(call); h != nil {
					eachCall(h, func(_ ssa.CallInstruction, n string) {
						if n == "strconv.ParseInt" || n == "strconv.ParseUint" || n == "strconv.Atoi" {
							parses = true
						}
					})
				}
			}
			if !parses {
				return
			}
			pv := extractOf(call, 0)
			if pv == nil {
				return
			}
			nParse++
			judged := false
			for _, b := range f.Blocks {
				iff, isIf := b.Instrs[len(b.Instrs)-1].(*ssa.If)
				if !isIf {
					continue
				}
				cv, positive := stripNot(iff.Cond)
				bo, isB := cv.(*ssa.BinOp)
				if !isB {
					continue
				}
				k, isC := constInt(bo.Y)
				if !isC || !derivesFrom(bo.X, func(v ssa.Value) bool { return v == ssa.Value(pv) }) {
					continue
				}
				// which edge is the "less than one second" side
				shortIdx := -1
				switch {
				case (bo.Op == token.LSS && k == 1) || (bo.Op == token.LEQ && k == 0) || (bo.Op == token.LSS && k == 1000000000):
					shortIdx = 0
				case (bo.Op == token.GEQ && k == 1) || (bo.Op == token.GTR && k == 0) || (bo.Op == token.GEQ && k == 1000000000):
					shortIdx = 1
				}
				if shortIdx < 0 {
					continue
				}
				if !positive {
					shortIdx = 1 - shortIdx
				}
				// on that side: no-cache is set, or a flag is raised
				hits := walkFrom(pos{b.Succs[shortIdx], 0}, nil, func(i2 ssa.Instruction) bool {
					st, isS := i2.(*ssa.Store)
					if !isS {
						return false
					}
					if tv, isK := constBool(st.Val); !isK || !tv {
						return false
					}
					if fv, _, is := fieldOf(st.Addr); is && fname(fv) == "noCache" {
						return true
					}
					return stickyNoCacheFlag(f, st.Addr)
				}, func(fb *ssa.BasicBlock, si int) bool { return fb == b }) // do not go round the loop back through this test
				if len(hits) > 0 {
					judged = true
				}
			}
			r.Check(judged, "C04.R8", fmt.Sprintf("%s: each max-age directive is judged when it is parsed (#%d)", fnKey(f), nParse), c.InstrPos(call), "the value parsed in this iteration is tested against one second; the short side sets no-cache (or a flag that becomes no-cache after the loop)", "a max-age of less than one second does not mark the response no-cache where it is parsed: when the directive occurs twice (`max-age=0, max-age=3600`) only the last value is judged, and a response the origin declared stale is stored for an hour")
		})
	}
	r.Floor("C04.R8", nParse, 1, "max-age parse sites in the Cache-Control parser")

	// ---- R7: HTTP dates are read in all three formats an HTTP recipient must accept (IMF-fixdate, RFC 850, asctime):
	// a future Expires in an obsolete format is "no past Expires", not an unparseable one
	nDate := 0
	for _, f := range li.Fns {
		if originPkgPath(f) != headersPkg {
			continue
		}
		eachCall(f, func(call ssa.CallInstruction, n string) {
			if n != "time.Parse" && n != "net/http.ParseTime" {
				return
			}
			nDate++
			key := fmt.Sprintf("%s: date header parse #%d", fnKey(f), nDate)
			if n == "net/http.ParseTime" {
				r.Ok("C04.R7", key, c.InstrPos(call), "http.ParseTime (all three HTTP-date formats)")
				return
			}
			layout, _ := constString(call.Common().Args[0])
			r.Fail("C04.R7", key, c.InstrPos(call), fmt.Sprintf("an HTTP date is parsed with the single layout %q: an Expires in the RFC 850 or asctime format (which recipients must accept) counts as unparseable, i.e. already expired, and a response that is fresh for an hour is never stored", layout))
		})
	}
	r.Floor("C04.R7", nDate, 1, "HTTP-date parses in package headers")

	// ---- R4
	for _, f := range c.FuncsNamed("(*" + proxyPkg + ".fetcher).handleUpstreamResponse") {
		n := 0
		eachCall(f, func(call ssa.CallInstruction, nme string) {
			if nme != "(*"+proxyPkg+".fetcher).handleUpstream200" {
				return
			}
			n++
			fs := factStrs(f, call.(ssa.Instruction))
			on200 := hasFact(fs, "$resp.StatusCode==200", true)
			r.Check(on200 || statusConjunct, "C04.R4", "the store path is entered only for status 200", c.InstrPos(call), fmt.Sprintf("on the ==200 arm: %v; StatusCode==200 conjunct in shouldResponseBeCached: %v", on200, statusConjunct), "the store path is entered for a status other than 200 and shouldResponseBeCached does not require 200 either")
		})
		r.Floor("C04.R4", n, 1, "handleUpstream200 call sites")
		// default arm
		okDefault := false
		eachInstr(f, func(in ssa.Instruction) {
			ret, ok := in.(*ssa.Return)
			if !ok {
				return
			}
			fs := factStrs(f, ret)
			if hasFact(fs, "StatusCode==200", false) && hasFact(fs, "StatusCode==304", false) && hasFact(fs, "StatusCode==416", false) {
				vals := retVals(ret)
				if len(vals) == 2 && isNilConst(vals[0]) && isNilConst(vals[1]) {
					okDefault = true
				}
			}
		})
		r.Check(okDefault, "C04.R4", "other statuses are relayed, not stored", c.Pos(f.Pos()), "default arm returns (nil, nil)", "a status other than 200/304/416 does not fall through to the plain relay (nil, nil)")
	}
	// the directives that decide storability are parsed from the very response being stored
	nH := 0
	for _, f := range li.Fns {
		if originPkgPath(f) != proxyPkg {
			continue
		}
		eachInstr(f, func(in ssa.Instruction) {
			call, ok := in.(*ssa.Call)
			if !ok || calleeName(call) != "(*"+proxyPkg+".fetcher).handleUpstream200" {
				return
			}
			nH++
			a := call.Call.Args // f, req, resp, key, upstreamHd
			resp, hd := a[2], a[4]
			okParse := false
			why := "the header directives are not computed in this function from the response passed along"
			if pc, isCall := resolveVal(hd).(*ssa.Call); isCall && calleeName(pc) == headersPkg+".ParseHeaderDirective" {
				root, p := fieldPath(pc.Call.Args[0])
				if len(p) == 1 && p[0] == "Header" && sameVal(root, resp) {
					okParse = true
					// no replacement of *resp between the parse and the call
					eachInstr(f, func(i2 ssa.Instruction) {
						st, isSt := i2.(*ssa.Store)
						if isSt && sameVal(st.Addr, resp) && reachableInstr(pc, st, nil) && reachableInstr(st, call, nil) {
							okParse = false
							why = "*resp is replaced at " + c.InstrPos(st) + " after its headers were parsed"
						}
					})
				}
			}
			r.Check(okParse, "C04.R1", fnKey(f)+": storability is judged by the stored response's own headers", c.InstrPos(call), "upstreamHd = ParseHeaderDirective(resp.Header) of the same resp, not replaced in between", "the response handed to the store path is judged by another response's headers ("+why+"): a no-store / private / expired 200 can be stored")
		})
	}
	r.Floor("C04.R1", nH, 1, "handleUpstream200 call sites")
	// who calls handleUpstream200
	for _, f := range c.FuncsNamed("(*" + proxyPkg + ".fetcher).handleUpstream200") {
		var callers []string
		for _, cs := range li.Callers[f] {
			callers = append(callers, fnKey(cs.caller))
		}
		callers = uniq(callers)
		r.Check(len(callers) == 1 && callers[0] == "(*"+proxyPkg+".fetcher).handleUpstreamResponse", "C04.R4", "handleUpstream200 has one caller", c.Pos(f.Pos()), "only handleUpstreamResponse", "handleUpstream200 is also called from "+strings.Join(callers, ", "))
	}

	// ---- R5
	for _, f := range c.FuncsNamed("(*" + proxyPkg + ".fetcher).dedupFetch") {
		var sf *ssa.Call
		eachInstr(f, func(in ssa.Instruction) {
			if x, ok := in.(*ssa.Call); ok && calleeName(x) == "(*golang.org/x/sync/singleflight.Group).Do" {
				sf = x
			}
		})
		if sf == nil {
			r.Undecided("C04.R5", "dedupFetch anchors", c.Pos(f.Pos()), "singleflight call not found")
			continue
		}
		fs := factStrs(f, sf)
		okc := hasFact(fs, "clientHd.Range)", false) && hasFact(fs, `$req.Method=="GET"`, true)
		r.Check(okc, "C04.R5", "coalescing (and cache lookup) only for ¬Range ∧ GET", c.InstrPos(sf), "facts at the singleflight call: "+strings.Join(keysOf(fs), " ∧ "), "the coalesced cache path is entered for a Range or non-GET request: "+strings.Join(keysOf(fs), " ∧ "))
	}
	nGet := 0
	for _, f := range li.Fns {
		if originPkgPath(f) != proxyPkg {
			continue
		}
		eachCall(f, func(call ssa.CallInstruction, n string) {
			if n != "("+cachePkg+".Cache).Get" {
				return
			}
			nGet++
			key := fnKey(f) + ": cache lookup"
			switch fnKey(f) {
			case "(*" + proxyPkg + ".fetcher).getFromCacheOrFetch":
				// only caller: the singleflight closure
				var callers []string
				for _, cs := range li.Callers[f] {
					callers = append(callers, fnKey(cs.caller))
				}
				callers = uniq(callers)
				okOnly := len(callers) == 1 && callers[0] == "(*"+proxyPkg+".fetcher).dedupFetch$1"
				if !okOnly {
					// ... or from a helper that only that closure calls
					for _, root := range li.Fns {
						if fnKey(root) == "(*"+proxyPkg+".fetcher).dedupFetch$1" && onlyReachedFrom(li, f, root, 0) {
							okOnly = true
						}
					}
				}
				r.Check(okOnly, "C04.R5", key, c.InstrPos(call), "only reachable from the singleflight closure", "getFromCacheOrFetch is also called from "+strings.Join(callers, ", ")+" (outside the coalescable path)")
			case "(*" + proxyPkg + ".fetcher).dedupFetch":
				fs := factStrs(f, call.(ssa.Instruction))
				r.Check(hasFact(fs, "clientHd.Range)", false) && hasFact(fs, `$req.Method=="GET"`, true), "C04.R5", key, c.InstrPos(call), "on the coalescable path", "cache lookup in dedupFetch outside the ¬Range ∧ GET path")
			default:
				// after a store / revalidation in the same function
				ok := false
				// the store / renewal itself, or a helper that does it on every way through (f.extendExpiry(key))
				isStoreDeep := deepMarker(func(in ssa.Instruction) bool {
					x, isCall := in.(*ssa.Call)
					if !isCall {
						return false
					}
					cn := calleeName(x)
					return cn == "("+cachePkg+".Cache).UpdateMetadata" || cn == "("+cachePkg+".Cache).Cache"
				}, 0)
				eachInstr(f, func(in ssa.Instruction) {
					if isStoreDeep(in) && instrDominates(in, call.(ssa.Instruction)) {
						ok = true
					}
				})
				r.Check(ok, "C04.R5", key, c.InstrPos(call), "directly after a store/revalidation of the same key", "a cache lookup that is neither on the coalescable path nor after a store: non-GET/Range requests could be answered from the store")
			}
		})
	}
	r.Floor("C04.R5", nGet, 3, "cache lookups in package proxy")
}

// helperResultBounded: every (non-recover) return of h hands back, as result idx, a value accepted by ok.
func helperResultBounded(h *ssa.Function, idx int, ok func(ret *ssa.Return, v ssa.Value) bool) bool {
	n, all := 0, true
	eachInstr(h, func(in ssa.Instruction) {
		ret, isRet := in.(*ssa.Return)
		if !isRet || isRecoverReturn(ret) {
			return
		}
		vals := retVals(ret)
		if idx >= len(vals) {
			all = false
			return
		}
		n++
		if !ok(ret, vals[idx]) {
			all = false
		}
	})
	return all && n > 0
}

// maxAgeAboveSubSecond: the atom is `<...>.maxAge>K` with 0 <= K < one second in nanoseconds.
func maxAgeAboveSubSecond(a string) bool {
	i := strings.LastIndex(a, ".maxAge>")
	if i < 0 {
		return false
	}
	var k int64
	if _, err := fmt.Sscanf(a[i+len(".maxAge>"):], "%d", &k); err != nil {
		return false
	}
	rest := a[i+len(".maxAge>"):]
	for _, ch := range rest {
		if ch < '0' || ch > '9' {
			return false
		}
	}
	return k >= 0 && k < 1000000000
}

// fieldAlwaysMultipleOf: every value stored into field `field` of struct pkg.typ anywhere in the package is zero or a
// product with a constant that is a multiple of unit (time.Duration(seconds) * time.Second), also when it comes back
// from a same-package helper. A zero-valued struct counts (0 is a multiple).
func fieldAlwaysMultipleOf(li *LockInfo, pkg, typ, field string, unit int64) bool {
	var multiple func(v ssa.Value, d int) bool
	multiple = func(v ssa.Value, d int) bool {
		if d > 6 {
			return false
		}
		if k, isC := constInt(v); isC {
			return k%unit == 0
		}
		switch x := v.(type) {
		case *ssa.BinOp:
			if x.Op == token.MUL {
				if k, isC := constInt(x.Y); isC && k%unit == 0 {
					return true
				}
				if k, isC := constInt(x.X); isC && k%unit == 0 {
					return true
				}
			}
			return false
		case *ssa.Convert:
			return multiple(x.X, d+1)
		case *ssa.ChangeType:
			return multiple(x.X, d+1)
		case *ssa.Phi:
			for _, e := range x.Edges {
				if !multiple(e, d+1) {
					return false
				}
			}
			return len(x.Edges) > 0
		case *ssa.Extract:
			if call, isCall := x.Tuple.(*ssa.Call); isCall {
				if h := helperBody(call); h != nil {
					return helperResultBounded(h, x.Index, func(_ *ssa.Return, rv ssa.Value) bool { return multiple(rv, d+1) })
				}
			}
		case *ssa.Call:
			if h := helperBody(x); h != nil {
				return helperResultBounded(h, 0, func(_ *ssa.Return, rv ssa.Value) bool { return multiple(rv, d+1) })
			}
		}
		return false
	}
	n, all := 0, true
	for _, f := range li.Fns {
		if originPkgPath(f) != pkg {
			continue
		}
		eachInstr(f, func(in ssa.Instruction) {
			st, ok := in.(*ssa.Store)
			if !ok {
				return
			}
			fa, isFA := st.Addr.(*ssa.FieldAddr)
			if !isFA || !strings.HasSuffix(fieldKeyOf(fa.X, fa.Field), "."+typ+"."+field) {
				return
			}
			n++
			if !multiple(st.Val, 0) {
				all = false
			}
		})
	}
	return n > 0 && all
}

// stickyNoCacheFlag: addr is a bool variable of the parser (captured by the loop literal, or local) that is never set
// to false except by its declaration, and whose truth, tested after the loop, leads to a store of true into noCache.
func stickyNoCacheFlag(f *ssa.Function, addr ssa.Value) bool {
	var cell ssa.Value = addr
	owner := f
	if fv, isFV := addr.(*ssa.FreeVar); isFV {
		cell = freeVarBinding(fv)
		owner = f.Parent()
	}
	al, isA := cell.(*ssa.Alloc)
	if !isA || owner == nil {
		return false
	}
	// stores through the cell in the owner and in its literals
	okStores := true
	check := func(g *ssa.Function, a ssa.Value) {
		for _, st := range storesTo(a) {
			tv, isK := constBool(st.Val)
			if !isK {
				okStores = false
				continue
			}
			if !tv && g != owner {
				okStores = false // reset inside the loop body
			}
		}
	}
	check(owner, al)
	for _, cl := range closuresOf(owner) {
		for _, fv := range cl.FreeVars {
			if freeVarBinding(fv) == ssa.Value(al) {
				check(cl, fv)
			}
		}
	}
	if !okStores {
		return false
	}
	// after the loop: if flag { noCache = true }
	leads := false
	for _, b := range owner.Blocks {
		iff, isIf := b.Instrs[len(b.Instrs)-1].(*ssa.If)
		if !isIf {
			continue
		}
		cv, positive := stripNot(iff.Cond)
		ld, isLd := cv.(*ssa.UnOp)
		if !isLd || ld.Op != token.MUL || ld.X != ssa.Value(al) {
			continue
		}
		idx := 0
		if !positive {
			idx = 1
		}
		hits := walkFrom(pos{b.Succs[idx], 0}, nil, func(i2 ssa.Instruction) bool {
			st, isS := i2.(*ssa.Store)
			if !isS {
				return false
			}
			tv, isK := constBool(st.Val)
			fv, _, is := fieldOf(st.Addr)
			return isK && tv && is && fname(fv) == "noCache"
		}, nil)
		if len(hits) > 0 {
			leads = true
		}
	}
	return leads
}
