package main

import (
	"fmt"
	"go/ast"
	"go/constant"
	"go/token"
	"go/types"
	"sort"
	"strings"

	"golang.org/x/tools/go/ssa"
)

func init() { register("C20", checkC20) }

const (
	apitypesPkg = "reservoir/webserver/api/apitypes"
	apiPkg      = "reservoir/webserver/api"
	authPkg     = "reservoir/webserver/auth"
)

// reachesFn: does f synchronously or asynchronously reach a function whose
// funcName equals target through module calls (static + call graph edges)?
func reachesFn(li *LockInfo, f *ssa.Function, target string) bool {
	seen := map[*ssa.Function]bool{}
	var visit func(g *ssa.Function) bool
	visit = func(g *ssa.Function) bool {
		if seen[g] {
			return false
		}
		seen[g] = true
		found := false
		eachCall(g, func(call ssa.CallInstruction, n string) {
			if n == target {
				found = true
			}
		})
		if found {
			return true
		}
		res := false
		eachInstr(g, func(in ssa.Instruction) {
			for _, h := range li.Callees[in] {
				if !res && visit(h) {
					res = true
				}
			}
		})
		return res
	}
	return visit(f)
}

// condLeaves collects the values a boolean depends on, through phis of
// short-circuit evaluation (including the conditions of the branches that
// select the phi's edges), NOT, and comparisons.
func condLeaves(v ssa.Value) []ssa.Value {
	var out []ssa.Value
	seen := map[ssa.Value]bool{}
	var rec func(v ssa.Value, d int)
	rec = func(v ssa.Value, d int) {
		if v == nil || seen[v] || d > 30 {
			return
		}
		seen[v] = true
		switch x := v.(type) {
		case *ssa.UnOp:
			if x.Op == token.NOT {
				rec(x.X, d+1)
				return
			}
			out = append(out, v)
			if x.Op == token.MUL {
				rec(x.X, d+1)
			}
		case *ssa.BinOp:
			rec(x.X, d+1)
			rec(x.Y, d+1)
		case *ssa.Phi:
			for i, e := range x.Edges {
				rec(e, d+1)
				// conditions controlling the choice of this edge
				pred := x.Block().Preds[i]
				stop := x.Block().Idom()
				for b := pred; b != nil; b = b.Idom() {
					if iff, ok := b.Instrs[len(b.Instrs)-1].(*ssa.If); ok {
						rec(iff.Cond, d+1)
					}
					if b == stop {
						break
					}
				}
			}
		case *ssa.Call:
			out = append(out, v)
			for _, a := range callArgs(x) {
				rec(a, d+1)
			}
		case *ssa.Convert:
			rec(x.X, d+1)
		case *ssa.ChangeType:
			rec(x.X, d+1)
		case *ssa.Extract:
			rec(x.Tuple, d+1)
		case *ssa.FieldAddr:
			out = append(out, v)
			rec(x.X, d+1)
		case *ssa.Field:
			out = append(out, v)
			rec(x.X, d+1)
		default:
			out = append(out, v)
		}
	}
	rec(v, 0)
	return out
}

func headerGetOf(v ssa.Value) (string, bool) {
	call, ok := v.(*ssa.Call)
	if !ok || calleeName(call) != "(net/http.Header).Get" {
		return "", false
	}
	args := callArgs(call)
	if len(args) < 2 {
		return "", false
	}
	return constString(args[1])
}

func checkC20(c *Ctx, r *Report) {
	r.Decided = []string{
		"R1 every EndpointMethod literal in the program has RequiresAuth: true except the methods of the one endpoint whose handler reaches auth.CreateSession (login); exhaustive over the source",
		"R2 every ServeMux registration is either WrapHandler(method.Func, hook calling EnsureAllowed with the same method) or a constant non-API pattern; MethodFunc values are invoked only inside WrapHandler's closure; the listener's handler is Harden(mux)",
		"R3 in WrapHandler the endpoint function is unreachable from a hook error; EnsureAllowed returns nil only if !RequiresAuth or IsAuthenticated; IsAuthenticated is Session != nil; Context.Session is written only from SessionFromRequest's result",
		"R4 sessions are stored only by CreateSession/GetSession; CreateSession is called only from the login handler after Authenticate returned nil; Authenticate returns a user only after VerifyArgon2id == true, which is a constant-time compare; logout reaches the session delete",
		"R5 GetSession has a branch on ExpiresAt whose expired side can reach neither a successful return nor the extension store",
		"R6 Harden: next.ServeHTTP is reachable only through the allow edge of a predicate over Origin and Sec-Fetch-Site; the refuse edge answers 403; the predicate's truth table over its header tests (Origin absent / equal to the Host, Sec-Fetch-Site absent / same-origin / same-site / none / cross-site, preflight) equals the table derived from the property text",
		"R7 look-up, expiry test and extension of a session, its creation and its deletion run under one common mutex, so a logout or an expiry cannot be undone by a request racing it",
	}
	r.NotDec = []string{"cookie entropy, timing side channels, SQL behaviour", "header values outside the tested atoms (e.g. malformed Origin strings)", "expiry margins as time arithmetic"}
	r.Exhaust = true
	li := BuildLocks(c)

	emType := c.LookupType(apitypesPkg, "EndpointMethod")
	if emType == nil {
		r.Undecided("C20.R1", "type EndpointMethod", "-", "unresolved anchor")
		return
	}
	// ---- R1
	nLit := 0
	loginEndpoints := map[string]bool{}
	for _, p := range c.Pkgs {
		for _, file := range p.Syntax {
			var stack []ast.Node
			ast.Inspect(file, func(n ast.Node) bool {
				if n == nil {
					stack = stack[:len(stack)-1]
					return true
				}
				stack = append(stack, n)
				lit, ok := n.(*ast.CompositeLit)
				if !ok {
					return true
				}
				t := p.TypesInfo.TypeOf(lit)
				if t == nil || !types.Identical(t, emType) {
					return true
				}
				nLit++
				var encl *ast.FuncDecl
				for i := len(stack) - 1; i >= 0; i-- {
					if fd, ok := stack[i].(*ast.FuncDecl); ok {
						encl = fd
						break
					}
				}
				enclName := "?"
				recvName := ""
				if encl != nil {
					enclName = encl.Name.Name
					if encl.Recv != nil && len(encl.Recv.List) > 0 {
						recvName = types.ExprString(encl.Recv.List[0].Type)
					}
				}
				method, auth, authConst := "?", false, false
				var funcObj types.Object
				for _, el := range lit.Elts {
					kv, ok := el.(*ast.KeyValueExpr)
					if !ok {
						continue
					}
					k, _ := kv.Key.(*ast.Ident)
					if k == nil {
						continue
					}
					tv := p.TypesInfo.Types[kv.Value]
					switch k.Name {
					case "Method":
						if tv.Value != nil && tv.Value.Kind() == constant.String {
							method = constant.StringVal(tv.Value)
						}
					case "RequiresAuth":
						if tv.Value != nil && tv.Value.Kind() == constant.Bool {
							authConst = true
							auth = constant.BoolVal(tv.Value)
						}
					case "Func":
						if sel, ok := kv.Value.(*ast.SelectorExpr); ok {
							funcObj = p.TypesInfo.Uses[sel.Sel]
						} else if id, ok := kv.Value.(*ast.Ident); ok {
							funcObj = p.TypesInfo.Uses[id]
						}
					}
				}
				key := fmt.Sprintf("%s %s.%s %s", p.PkgPath, strings.TrimPrefix(recvName, "*"), enclName, method)
				pos := c.Pos(lit.Pos())
				// does the handler reach CreateSession?
				isLogin := false
				if fo, ok := funcObj.(*types.Func); ok {
					if sf := c.Prog.FuncValue(fo); sf != nil {
						isLogin = reachesFn(li, sf, authPkg+".CreateSession")
					}
				}
				switch {
				case len(lit.Elts) > 0 && !isKeyed(lit):
					r.Undecided("C20.R1", key, pos, "positional EndpointMethod literal: fields cannot be attributed by name")
				case auth && authConst:
					r.OkT("C20.R1", key, pos, "RequiresAuth: true")
				case isLogin:
					loginEndpoints[p.PkgPath+"."+strings.TrimPrefix(recvName, "*")] = true
					r.Ok("C20.R1", key, pos, "RequiresAuth is false, but this is the login route: its handler reaches auth.CreateSession")
				default:
					r.Fail("C20.R1", key, pos, "route does not require a session (RequiresAuth is not the constant true) and is not the login route: it answers without any cookie")
				}
				return true
			})
		}
	}
	r.Floor("C20.R1", nLit, 14, "EndpointMethod literals")
	if len(loginEndpoints) != 1 {
		r.Fail("C20.R1", "exactly one login endpoint", "-", fmt.Sprintf("%d endpoints are exempt from authentication via CreateSession reachability: %v", len(loginEndpoints), loginEndpoints))
	} else {
		r.OkT("C20.R1", "exactly one login endpoint", "-", fmt.Sprintf("%v", loginEndpoints))
	}

	// ---- R2 mux registrations
	nReg := 0
	for _, f := range li.Fns {
		eachCall(f, func(call ssa.CallInstruction, n string) {
			if n != "(*net/http.ServeMux).HandleFunc" && n != "(*net/http.ServeMux).Handle" {
				return
			}
			nReg++
			args := call.Common().Args // recv, pattern, handler
			key := fmt.Sprintf("%s registers #%d", fnKey(f), nReg)
			pos := c.InstrPos(call)
			h := unconv(args[2])
			if wc, ok := h.(*ssa.Call); ok && calleeName(wc) == apiPkg+".WrapHandler" {
				wa := wc.Call.Args // cfg, methodFunc, hook
				// methodFunc must be the Func field of an EndpointMethod value m
				mroot, mpath := fieldPath(wa[1])
				okFunc := len(mpath) == 1 && mpath[0] == "Func"
				hook, isClosure := wa[2].(*ssa.MakeClosure)
				okHook := false
				why := ""
				if !isClosure {
					why = "pre-run hook is not a closure (nil or unknown function): EnsureAllowed is not guaranteed to run"
				} else {
					hf := hook.Fn.(*ssa.Function)
					eachCall(hf, func(hc ssa.CallInstruction, hn string) {
						if hn != apiPkg+".EnsureAllowed" {
							return
						}
						// second argument must be the same method value
						marg := hc.Common().Args[1]
						root2, _ := fieldPath(marg)
						var bound ssa.Value
						if fv, ok := resolveFree(root2).(*ssa.FreeVar); ok {
							for i, x := range hf.FreeVars {
								if x == fv {
									bound = hook.Bindings[i]
								}
							}
						}
						if bound != nil && sameRootCell(bound, mroot) {
							// results returned unchanged on every return
							okHook = true
							eachInstr(hf, func(in ssa.Instruction) {
								if ret, ok := in.(*ssa.Return); ok {
									for i, rv := range ret.Results {
										if e, ok := rv.(*ssa.Extract); !ok || e.Tuple != hc.Value() || e.Index != i {
											okHook = false
											why = "hook does not return EnsureAllowed's result unchanged"
										}
									}
								}
							})
						} else {
							why = "EnsureAllowed is called with a different EndpointMethod than the one whose Func is registered"
						}
					})
					// a method value as the hook (methodGate{method}.ensureAllowed): the method calls EnsureAllowed with a field
					// of its receiver, and the receiver bound here was built with the registered method in that field
					if m, _ := funcValueBody(hook); !okHook && m != nil && m != hf && len(m.Params) > 0 && len(hook.Bindings) == 1 {
						eachCall(m, func(hc ssa.CallInstruction, hn string) {
							if hn != apiPkg+".EnsureAllowed" {
								return
							}
							root2, pth2 := fieldPath(hc.Common().Args[1])
							if (resolveVal(root2) != ssa.Value(m.Params[0]) && cellValue(root2) != ssa.Value(m.Params[0])) || len(pth2) != 1 {
								why = "EnsureAllowed is called with something other than a field of the hook's receiver"
								return
							}
							// the receiver value bound at the registration: a struct built in place
							var lit *ssa.Alloc
							switch b := hook.Bindings[0].(type) {
							case *ssa.UnOp:
								lit, _ = b.X.(*ssa.Alloc)
							case *ssa.Alloc:
								lit = b
							}
							same := false
							if lit != nil {
								if refs := lit.Referrers(); refs != nil {
									for _, ref := range *refs {
										if fa, isFA := ref.(*ssa.FieldAddr); isFA {
											if fv, _, is := fieldOf(fa); is && fname(fv) == pth2[0] {
												for _, st := range storesTo(fa) {
													if sameRootCell(st.Val, mroot) || sameVal(st.Val, mroot) {
														same = true
													}
													for _, cand := range []ssa.Value{st.Val, resolveVal(st.Val)} {
														if ld, isLd := cand.(*ssa.UnOp); isLd && ld.Op == token.MUL && (ld.X == mroot || resolveVal(ld.X) == resolveVal(mroot)) {
															same = true // a copy of the very element whose Func is registered
														}
													}
												}
											}
										}
									}
								}
							}
							if !same {
								why = "EnsureAllowed is called with a different EndpointMethod than the one whose Func is registered"
								return
							}
							okHook, why = true, ""
							eachInstr(m, func(in ssa.Instruction) {
								if ret, ok := in.(*ssa.Return); ok && !isRecoverReturn(ret) {
									for i, rv := range ret.Results {
										if e, ok := rv.(*ssa.Extract); !ok || e.Tuple != hc.Value() || e.Index != i {
											okHook = false
											why = "hook does not return EnsureAllowed's result unchanged"
										}
									}
								}
							})
						})
					}
					if !okHook && why == "" {
						why = "hook does not call EnsureAllowed"
					}
				}
				if okFunc && okHook {
					r.Ok("C20.R2", key, pos, "handler = WrapHandler(m.Func, hook→EnsureAllowed(ctx, m)) with the same m")
				} else {
					if !okFunc {
						why = "registered function is not the Func field of an EndpointMethod; " + why
					}
					r.Fail("C20.R2", key, pos, why)
				}
				return
			}
			if pat, ok := constString(args[1]); ok {
				path := pat
				if i := strings.Index(pat, " "); i >= 0 {
					path = strings.TrimSpace(pat[i+1:])
				}
				if !strings.HasPrefix(path, "/api") {
					r.OkT("C20.R2", key, pos, "constant non-API pattern "+pat)
					return
				}
			}
			r.Fail("C20.R2", key, pos, "an API route is registered on the mux without api.WrapHandler: the session check does not run for it")
		})
	}
	r.Floor("C20.R2", nReg, 2, "ServeMux registrations")
	// MethodFunc invocations
	mfType := c.LookupType(apitypesPkg, "MethodFunc")
	nInv := 0
	for _, f := range li.Fns {
		eachCall(f, func(call ssa.CallInstruction, n string) {
			cc := call.Common()
			if cc.IsInvoke() || mfType == nil {
				return
			}
			if !types.Identical(cc.Value.Type(), mfType) {
				return
			}
			if _, isFn := cc.Value.(*ssa.Function); isFn {
				return
			}
			nInv++
			key := "MethodFunc invoked in " + fnKey(f)
			if fnKey(f) == apiPkg+".WrapHandler$1" {
				r.OkT("C20.R2", key, c.InstrPos(call), "the only invocation site is behind the hook")
			} else {
				r.Fail("C20.R2", key, c.InstrPos(call), "an endpoint function value is invoked outside WrapHandler's closure (bypasses the session check)")
			}
		})
	}
	r.Floor("C20.R2", nInv, 1, "MethodFunc invocation sites")
	// Harden wraps the mux
	for _, f := range c.FuncsNamed("(*reservoir/webserver.WebServer).Listen") {
		ok := false
		eachCall(f, func(call ssa.CallInstruction, n string) {
			if n == "reservoir/utils/httplistener.New" {
				h := unconv(call.Common().Args[1])
				if hc, isCall := h.(*ssa.Call); isCall && calleeName(hc) == "reservoir/webserver/middleware.Harden" {
					ok = true
				}
			}
		})
		r.Check(ok, "C20.R2", "WebServer.Listen serves Harden(mux)", c.Pos(f.Pos()), "listener handler is middleware.Harden(ws.mux)", "the web server's handler is not wrapped by middleware.Harden: cross-site requests reach the API")
	}

	// ---- R3
	for _, f := range c.FuncsNamed(apiPkg + ".WrapHandler") {
		if len(f.Params) < 3 {
			r.Undecided("C20.R3", "WrapHandler signature", c.Pos(f.Pos()), "expected (cfg, methodFunc, preRunHook)")
			continue
		}
		hookName := f.Params[2].Name()
		for _, cl := range f.AnonFuncs {
			// the endpoint invocation: a call of a value of type apitypes.MethodFunc
			var mfCall *ssa.Call
			eachInstr(cl, func(in ssa.Instruction) {
				call, ok := in.(*ssa.Call)
				if !ok || call.Call.IsInvoke() || mfType == nil {
					return
				}
				if types.Identical(call.Call.Value.Type(), mfType) {
					mfCall = call
				}
			})
			key := "WrapHandler closure: endpoint call gated by hook"
			if mfCall == nil {
				r.Fail("C20.R3", key, c.Pos(cl.Pos()), "the endpoint function is not invoked in WrapHandler's closure")
				continue
			}
			bs := &boolSummer{li: li}
			paths, ok := bs.pathsTo(cl, mfCall)
			if !ok || len(paths) == 0 {
				r.Undecided("C20.R3", key, c.InstrPos(mfCall), "paths to the endpoint call could not be summarised")
				continue
			}
			var bad []string
			for _, p := range paths {
				okPath := false
				for a, v := range p.cond {
					isHook := strings.Contains(a, hookName)
					if !isHook {
						continue
					}
					// hook == nil  |  hook(ctx)#1 == nil
					if strings.HasSuffix(a, "==nil") && v {
						okPath = true
					}
				}
				if !okPath {
					bad = append(bad, p.cond.String())
				}
			}
			r.Check(len(bad) == 0, "C20.R3", key, c.InstrPos(mfCall), fmt.Sprintf("all %d paths to the endpoint function pass 'hook == nil' or 'hook error == nil' (helpers expanded)", len(paths)), "the endpoint function is reachable although the pre-run hook returned an error (401 not enforced) under: "+strings.Join(uniq(bad), " | "))
		}
	}
	for _, f := range c.FuncsNamed(apiPkg + ".EnsureAllowed") {
		bs := &boolSummer{li: li}
		classify := func(a string) string {
			switch {
			case strings.HasSuffix(a, ".RequiresAuth"):
				return "requiresAuth"
			case strings.HasPrefix(a, "IsAuthenticated("):
				return "authed"
			}
			return ""
		}
		ok, detail, n := bs.checkTable(f, 1, classify, func(v map[string]bool) (bool, bool) {
			return !v["requiresAuth"] || v["authed"], true
		})
		r.Check(ok, "C20.R3", "EnsureAllowed returns nil iff !RequiresAuth or IsAuthenticated", c.Pos(f.Pos()), detail, "EnsureAllowed's nil-error result is not exactly '!RequiresAuth || IsAuthenticated()': "+detail)
		r.Floor("C20.R3", n, 4, "rows of EnsureAllowed's truth table")
	}
	for _, f := range c.FuncsNamed("(*" + apitypesPkg + ".Context).IsAuthenticated") {
		ok := false
		eachInstr(f, func(in ssa.Instruction) {
			ret, isRet := in.(*ssa.Return)
			if !isRet || len(ret.Results) != 1 {
				return
			}
			if bo, isB := ret.Results[0].(*ssa.BinOp); isB && bo.Op == token.NEQ && (isNilConst(bo.X) || isNilConst(bo.Y)) {
				other := bo.X
				if isNilConst(bo.X) {
					other = bo.Y
				}
				if _, p := fieldPath(other); len(p) == 1 && p[0] == "Session" {
					ok = true
				}
			}
		})
		r.Check(ok, "C20.R3", "IsAuthenticated ⇔ Session != nil", c.Pos(f.Pos()), "returns c.Session != nil", "IsAuthenticated is not 'Session != nil'")
	}
	nSess := 0
	for _, f := range li.Fns {
		eachInstr(f, func(in ssa.Instruction) {
			st, ok := in.(*ssa.Store)
			if !ok {
				return
			}
			fa, ok := st.Addr.(*ssa.FieldAddr)
			if !ok || fieldKeyOf(fa.X, fa.Field) != apitypesPkg+".Context.Session" {
				return
			}
			nSess++
			key := "Context.Session written in " + fnKey(f)
			from := derivesFrom(st.Val, func(v ssa.Value) bool {
				call, ok := v.(*ssa.Call)
				return ok && calleeName(call) == authPkg+".SessionFromRequest"
			})
			r.Check(from && fnKey(f) == apitypesPkg+".CreateContext", "C20.R3", key, c.InstrPos(st), "value is SessionFromRequest's result", "Context.Session is set from something other than auth.SessionFromRequest")
		})
	}
	r.Floor("C20.R3", nSess, 1, "stores to Context.Session")

	// ---- R4
	nSet := 0
	for _, f := range li.Fns {
		eachCall(f, func(call ssa.CallInstruction, n string) {
			if !strings.HasSuffix(n, "syncmap.SyncMap).Set") && !strings.HasSuffix(n, "syncmap.SyncMap).GetOrSet") {
				return
			}
			if originPkgPath(f) != authPkg {
				return
			}
			nSet++
			k := fnKey(f)
			// the two functions themselves, or a helper nothing else calls (extendLocked)
			var ownedBy func(g *ssa.Function, d int) bool
			ownedBy = func(g *ssa.Function, d int) bool {
				gk := fnKey(g)
				if gk == authPkg+".CreateSession" || gk == authPkg+".GetSession" {
					return true
				}
				cs := li.Callers[g]
				if d > 2 || len(cs) == 0 {
					return false
				}
				for _, site := range cs {
					if !ownedBy(site.in.Parent(), d+1) {
						return false
					}
				}
				return true
			}
			r.Check(ownedBy(f, 0), "C20.R4", "sessionStore.Set in "+k, c.InstrPos(call), "session stored by CreateSession / GetSession (or a helper only they call)", "a session is put into the store outside CreateSession/GetSession")
		})
	}
	r.Floor("C20.R4", nSet, 2, "session store writes")
	nCS := 0
	for _, f := range li.Fns {
		eachCall(f, func(call ssa.CallInstruction, n string) {
			if n != authPkg+".CreateSession" {
				return
			}
			nCS++
			key := "CreateSession called in " + fnKey(f)
			var authCall *ssa.Call
			eachInstr(f, func(in ssa.Instruction) {
				if x, ok := in.(*ssa.Call); ok && strings.HasSuffix(calleeName(x), "auth.Credentials).Authenticate") {
					authCall = x
				}
			})
			if authCall == nil {
				r.Fail("C20.R4", key, c.InstrPos(call), "a session is created in a function that never calls Credentials.Authenticate")
				return
			}
			errv := extractOf(authCall, 1)
			ok := errv != nil && instrDominates(authCall, call) && onlyWhenNil(f, call, errv, true)
			r.Check(ok, "C20.R4", key, c.InstrPos(call), "dominated by the nil-error edge of Authenticate()", "CreateSession is reachable without a successful Authenticate()")
		})
	}
	r.Floor("C20.R4", nCS, 1, "CreateSession call sites")
	for _, f := range c.FuncsNamed("(*" + authPkg + ".Credentials).Authenticate") {
		var verify *ssa.Call
		eachInstr(f, func(in ssa.Instruction) {
			if x, ok := in.(*ssa.Call); ok && strings.HasSuffix(calleeName(x), "phc.PHC).VerifyArgon2id") {
				verify = x
			}
		})
		n := 0
		eachInstr(f, func(in ssa.Instruction) {
			ret, ok := in.(*ssa.Return)
			if !ok || len(ret.Results) != 2 || isRecoverReturn(ret) {
				return
			}
			// success return: a nil error
			if !isNilConst(retVals(ret)[1]) {
				return
			}
			n++
			key := fmt.Sprintf("Authenticate: success return #%d", n)
			ok2 := verify != nil && guardedByTruth(f, ret, verify, true)
			r.Check(ok2, "C20.R4", key, c.InstrPos(ret), "only on the VerifyArgon2id()==true edge", "Authenticate can succeed without the password hash verifying")
		})
		r.Floor("C20.R4", n, 1, "success returns of Authenticate")
	}
	for _, f := range c.FuncsNamed("(*reservoir/utils/phc.PHC).VerifyArgon2id") {
		ok := false
		eachInstr(f, func(in ssa.Instruction) {
			ret, isRet := in.(*ssa.Return)
			if !isRet || len(ret.Results) != 1 {
				return
			}
			bo, isB := ret.Results[0].(*ssa.BinOp)
			if !isB || bo.Op != token.EQL {
				return
			}
			cv, okc := constInt(bo.Y)
			call, isCall := bo.X.(*ssa.Call)
			if okc && cv == 1 && isCall && calleeName(call) == "crypto/subtle.ConstantTimeCompare" {
				// one operand is the stored hash, the other derives from argon2.IDKey(password, salt...)
				a0, a1 := call.Call.Args[0], call.Call.Args[1]
				fromKDF := func(v ssa.Value) bool {
					return derivesFrom(v, func(x ssa.Value) bool {
						cc, ok := x.(*ssa.Call)
						return ok && strings.Contains(calleeName(cc), "argon2.IDKey")
					})
				}
				fromStored := func(v ssa.Value) bool {
					_, p := fieldPath(v)
					return len(p) == 1 && p[0] == "hash"
				}
				if (fromKDF(a0) && fromStored(a1)) || (fromKDF(a1) && fromStored(a0)) {
					ok = true
				}
			}
		})
		r.Check(ok, "C20.R4", "VerifyArgon2id = ConstantTimeCompare(argon2(password), stored hash) == 1", c.Pos(f.Pos()), "result is subtle.ConstantTimeCompare(KDF(password), p.hash) == 1", "password verification is not a constant-time comparison of the derived key with the stored hash being equal to 1")
	}
	for _, f := range c.FuncsNamed("(*reservoir/webserver/api/auth.LogoutEndpoint).Post") {
		ok := reachesFn(li, f, "(*reservoir/utils/syncmap.SyncMap).Delete")
		r.Check(ok, "C20.R4", "logout deletes the session", c.Pos(f.Pos()), "logout handler reaches sessionStore.Delete", "logout does not remove the session from the store: the cookie stays valid")
	}

	// ... and the removal does not depend on which copy of the session the caller holds. Sessions are replaced, not
	// modified, when they are extended: the object a logout request resolved a moment ago may no longer be the one in
	// the store. A removal guarded by "the store still holds this very object" then removes nothing and the id stays
	// valid. Guards accepted: the id is (not) in the store; identity of two values both read from the store.
	for _, f := range c.FuncsNamed("(*" + authPkg + ".Session).Destroy") {
		nDel := 0
		for _, hc := range helperContexts(f, 2) {
			eachInstr(hc.fn, func(in ssa.Instruction) {
				del, ok := in.(*ssa.Call)
				if !ok || !strings.HasSuffix(calleeName(del), "syncmap.SyncMap).Delete") {
					return
				}
				nDel++
				fromStore := func(v ssa.Value, ctx dctx) bool {
					v = resolveVal(v)
					for hop := 0; hop < 4; hop++ {
						prm, isP := v.(*ssa.Parameter)
						if !isP {
							break
						}
						a, c2, okA := paramArg(prm, ctx)
						if !okA {
							return false
						}
						v, ctx = resolveVal(a), c2
					}
					ex, isE := v.(*ssa.Extract)
					if !isE || ex.Index != 0 {
						return false
					}
					gc, isC := ex.Tuple.(*ssa.Call)
					return isC && strings.HasSuffix(calleeName(gc), "syncmap.SyncMap).Get")
				}
				bad := ""
				type site struct {
					g   *ssa.Function
					in  ssa.Instruction
					ctx dctx
				}
				sites := []site{{hc.fn, del, hc.ctx}}
				for i, cs := range hc.ctx {
					g := f
					if i > 0 {
						g = helperBody(hc.ctx[i-1])
					}
					if g != nil {
						sites = append(sites, site{g, cs, hc.ctx[:i]})
					}
				}
				for _, st := range sites {
					for _, fc := range factsAt(st.g, st.in) {
						cv, _ := stripNot(fc.cond)
						bo, isB := cv.(*ssa.BinOp)
						if !isB || (bo.Op != token.EQL && bo.Op != token.NEQ) {
							continue
						}
						if _, isPtr := bo.X.Type().Underlying().(*types.Pointer); !isPtr || isNilConst(bo.X) || isNilConst(bo.Y) {
							continue
						}
						if !strings.HasSuffix(canonTypes(bo.X.Type().String()), "auth.Session") {
							continue
						}
						if !fromStore(bo.X, st.ctx) || !fromStore(bo.Y, st.ctx) {
							bad = c.InstrPos(bo)
						}
					}
				}
				r.Check(bad == "", "C20.R4", "logout removes the session id whatever copy of the session the caller holds", c.InstrPos(del), "the removal is not conditional on the identity of a session object held by the caller", "the removal of the session in Destroy is conditional on the store still holding the very object the caller resolved earlier (comparison at "+bad+"): a request that extended the session in between has replaced that object, logout then removes nothing and the cookie stays valid for another lifetime")
			})
		}
		r.Floor("C20.R4", nDel, 1, "session removals reachable from Destroy")
	}

	// ---- R5
	for _, f := range c.FuncsNamed(authPkg + ".GetSession") {
		found, polarityNote := false, ""
		for _, b := range f.Blocks {
			iff, ok := b.Instrs[len(b.Instrs)-1].(*ssa.If)
			if !ok {
				continue
			}
			dependsOnExpiry := false
			for _, l := range condLeaves(iff.Cond) {
				if fv, _, ok := fieldOf(l); ok && fname(fv) == "ExpiresAt" {
					dependsOnExpiry = true
				}
			}
			if _, known := expiredWhenTrue(iff.Cond); known {
				dependsOnExpiry = true // also through a predicate helper (sess.expiredAt(now))
			}
			if !dependsOnExpiry {
				continue
			}
			for si, s := range b.Succs {
				bad := false
				hits := walkFrom(pos{s, 0}, nil, func(in ssa.Instruction) bool {
					switch x := in.(type) {
					case *ssa.Return:
						if len(x.Results) == 2 && !isRecoverReturn(x) {
							if v, isC := constBool(retVals(x)[1]); !(isC && !v) {
								return true
							}
						}
					case *ssa.Call:
						n := calleeName(x)
						if strings.HasSuffix(n, "SyncMap).Set") || strings.HasSuffix(n, "SyncMap).GetOrSet") {
							return true
						}
					}
					return false
				}, nil)
				if len(hits) > 0 {
					bad = true
				}
				if !bad {
					// polarity: refusing edge must be the "expired" side when the form is recognised
					if exp, known := expiredWhenTrue(iff.Cond); known {
						refusingWhenCondTrue := si == 0
						if exp != refusingWhenCondTrue {
							polarityNote = "the refusing branch is taken when the session is NOT expired (inverted comparison)"
							continue
						}
						polarityNote = "polarity checked"
					} else {
						lossy := ""
						for cn := range callsInDerivation(iff.Cond) {
							switch cn {
							case "(time.Duration).Truncate", "(time.Duration).Round", "(time.Duration).Seconds", "(time.Duration).Minutes", "(time.Duration).Hours", "(time.Duration).Milliseconds", "(time.Time).Truncate", "(time.Time).Round", "(time.Time).Unix":
								lossy = cn
							}
						}
						if lossy != "" {
							polarityNote = "the expiry test compares a value that went through " + lossy + ": sessions expired by less than that granularity pass as live"
							continue
						}
						polarityNote = "polarity of the comparison form not recognised (structure only)"
					}
					found = true
				}
			}
		}
		if found {
			r.Ok("C20.R5", "GetSession refuses expired sessions", c.Pos(f.Pos()), "a branch on ExpiresAt leads only to 'return _, false' and never to the extension store; "+polarityNote)
		} else {
			msg := "no branch on ExpiresAt whose one side can reach neither a successful return nor the store that extends the session: an expired session is accepted (and revived)"
			if polarityNote != "" {
				msg += "; " + polarityNote
			}
			r.Fail("C20.R5", "GetSession refuses expired sessions", c.Pos(f.Pos()), msg)
		}
	}

	// ---- R7: logout wins. GetSession looks a session up and, near its expiry, stores an extended copy back: two steps on
	// the session map. A Destroy (logout) between them would be undone by the write-back — the logged-out id is live
	// again for a full lifetime. Lookup, write-back and the delete of Destroy run under one common lock.
	{
		const authPkg = "reservoir/webserver/auth"
		var common lset
		nOps := 0
		note := func(in ssa.Instruction) {
			nOps++
			held := li.HeldMust(in)
			if common == nil {
				common = held.clone()
			} else {
				common = inter(common, held)
			}
		}
		noteCtx := func(in ssa.Instruction, ctx dctx) {
			nOps++
			held := li.HeldMust(in).clone()
			for _, cs := range ctx {
				for k := range li.HeldMust(cs) {
					held[k] = true
				}
			}
			if common == nil {
				common = held
			} else {
				common = inter(common, held)
			}
		}
		_ = note
		for _, f := range c.FuncsNamed(authPkg + ".GetSession") {
			for _, hc := range helperContexts(f, 2) {
				eachCall(hc.fn, func(call ssa.CallInstruction, n string) {
					if strings.HasSuffix(n, "syncmap.SyncMap).Get") || strings.HasSuffix(n, "syncmap.SyncMap).Set") {
						noteCtx(call.(ssa.Instruction), hc.ctx)
					}
				})
			}
		}
		for _, f := range c.FuncsNamed("(*" + authPkg + ".Session).Destroy") {
			for _, hc := range helperContexts(f, 2) {
				eachCall(hc.fn, func(call ssa.CallInstruction, n string) {
					if strings.HasSuffix(n, "syncmap.SyncMap).Delete") {
						noteCtx(call.(ssa.Instruction), hc.ctx)
					}
				})
			}
		}
		// the SyncMap's own lock is taken and released inside each method: it does not span two calls
		for k := range common {
			if strings.Contains(string(k), "syncmap.SyncMap") {
				delete(common, k)
			}
		}
		r.Check(nOps >= 3 && len(common) > 0, "C20.R7", "session lookup + extension and logout exclude each other", "-", fmt.Sprintf("%d session-map operations under the common lock(s) %s", nOps, common), fmt.Sprintf("GetSession reads a session and writes an extended copy back in two separate steps (%d map operations, no common lock %s): a logout that lands between them is undone, the logged-out session id is valid for another lifetime", nOps, common))
	}

	// ---- R6
	for _, f := range c.FuncsNamed("reservoir/webserver/middleware.Harden") {
		for _, cl := range f.AnonFuncs {
			var next *ssa.Call
			eachInstr(cl, func(in ssa.Instruction) {
				if x, ok := in.(*ssa.Call); ok && calleeName(x) == "(net/http.Handler).ServeHTTP" {
					next = x
				}
			})
			if next == nil {
				r.Fail("C20.R6", "Harden: next handler call", c.Pos(cl.Pos()), "next.ServeHTTP not found")
				continue
			}
			// every way out of the middleware that does not go through the next handler answers 403
			is403 := func(in ssa.Instruction) bool {
				x, ok := in.(*ssa.Call)
				if !ok || calleeName(x) != "net/http.Error" {
					return false
				}
				v, ok := constInt(x.Call.Args[2])
				return ok && v == 403
			}
			var silent []string
			is403Deep := deepMarker(is403, 0) // the answer may be written by a helper (forbid(w, r, reason))
			for _, e := range exitsFromEntryAvoiding(cl, func(in ssa.Instruction) bool { return in == ssa.Instruction(next) || is403Deep(in) }, nil) {
				silent = append(silent, c.InstrPos(e))
			}
			r.Check(len(silent) == 0, "C20.R6", "Harden: cross-site refusal dominates next.ServeHTTP", c.InstrPos(next), "every exit that bypasses next.ServeHTTP passes http.Error(403); when the handler is reached is decided by the predicate table below", "the middleware can return without calling the next handler and without answering 403: "+strings.Join(silent, ", "))
			// the predicate itself, as a truth table over the header tests: the next handler is reached exactly when
			// the request has no Origin, or its Sec-Fetch-Site is absent / same-origin / same-site — and it is not a
			// CORS preflight (OPTIONS with an Origin). No other input (a special-cased Origin value, another header)
			// may open the gate.
			bs := &boolSummer{li: li}
			paths, okP := bs.pathsTo(cl, next)
			if !okP || len(paths) == 0 {
				r.Undecided("C20.R6", "Harden: cross-site predicate table", c.InstrPos(next), "the paths to next.ServeHTTP could not be summarised (loop or too many branches)")
				continue
			}
			set := map[string]bool{}
			for _, p := range paths {
				for a := range p.cond {
					set[a] = true
				}
			}
			var atoms []string
			for a := range set {
				atoms = append(atoms, a)
			}
			sort.Strings(atoms)
			classify := func(a string) string {
				isO := strings.Contains(a, `"Origin")`)
				isS := strings.Contains(a, `"Sec-Fetch-Site")`)
				switch {
				case isO && strings.HasSuffix(a, `==""`) && !strings.Contains(a, "Parse(") && !strings.Contains(a, ".Host"):
					return "originEmpty"
				case isS && strings.HasSuffix(a, `==""`):
					return "siteEmpty"
				case isS && strings.HasSuffix(a, `=="same-origin"`):
					return "sameOrigin"
				case isS && strings.HasSuffix(a, `=="same-site"`):
					return "sameSite"
				case isS && strings.HasSuffix(a, `=="none"`):
					return "siteNone"
				case isO && strings.Contains(a, ".Host") && strings.HasSuffix(a, `.Host==""`):
					return "originHostEmpty"
				case isO && strings.Contains(a, ".Host") && strings.Contains(a, "$r.Host"):
					return "originIsHost" // the Origin's authority compared with the host that was addressed
				case isO && strings.Contains(a, "Parse(") && strings.HasSuffix(a, "#1==nil"):
					return "originParses"
				case strings.HasSuffix(a, `.Method=="OPTIONS"`):
					return "options"
				}
				return ""
			}
			var badRows []string
			nRows := 0
			if len(atoms) <= 12 {
				for m := 0; m < 1<<len(atoms); m++ {
					as := map[string]bool{}
					for i, a := range atoms {
						as[a] = m&(1<<i) != 0
					}
					v := specVars(as, classify)
					// one header value cannot equal two different constants
					nSite := 0
					for _, k := range []string{"siteEmpty", "sameOrigin", "sameSite", "siteNone"} {
						if v[k] {
							nSite++
						}
					}
					if nSite > 1 {
						continue
					}
					nRows++
					reach := false
					for _, p := range paths {
						match := true
						for a, val := range p.cond {
							if as[a] != val {
								match = false
								break
							}
						}
						if match {
							reach = true
							break
						}
					}
					// cross-site = the browser says so (Sec-Fetch-Site present and not same-origin / same-site / none), or, where
					// the browser sends no Fetch Metadata, the Origin names another host than the one addressed
					sameBySite := v["sameOrigin"] || v["sameSite"] || v["siteNone"]
					// the comparison may be spelled out: the Origin parses, has an authority, and that authority is the host
					hasClass := func(cl string) bool {
						for _, a := range atoms {
							if classify(a) == cl {
								return true
							}
						}
						return false
					}
					matches := v["originIsHost"]
					if hasClass("originParses") && !v["originParses"] {
						matches = false
					}
					if hasClass("originHostEmpty") && v["originHostEmpty"] {
						matches = false
					}
					if v["originEmpty"] && (v["originIsHost"] || (hasClass("originParses") && !v["originParses"])) {
						continue // an absent Origin has nothing to parse or compare
					}
					if hasClass("originHostEmpty") && v["originHostEmpty"] && v["originIsHost"] {
						continue // an empty authority equals no addressed host
					}
					sameByOrigin := v["siteEmpty"] && (v["originEmpty"] || matches)
					want := (sameBySite || sameByOrigin) && !(v["options"] && !v["originEmpty"])
					if reach != want {
						badRows = append(badRows, fmt.Sprintf("[%s] reaches the handler=%v, want %v", lits(as).String(), reach, want))
					}
				}
			} else {
				badRows = append(badRows, fmt.Sprintf("%d branch atoms: table too large", len(atoms)))
			}
			if len(badRows) > 3 {
				badRows = append(badRows[:3], fmt.Sprintf("… %d more rows", len(badRows)-3))
			}
			r.Check(len(badRows) == 0, "C20.R6", "Harden: cross-site predicate table", c.InstrPos(next), fmt.Sprintf("%d rows over %v", nRows, atoms), "the gate in front of the API handlers opens for cross-site requests (a request is same-site iff Sec-Fetch-Site is same-origin / same-site / none, or — without Fetch Metadata — it has no Origin or its Origin names the addressed host; preflights are refused): "+strings.Join(badRows, "; "))
		}
	}
}

func isKeyed(lit *ast.CompositeLit) bool {
	for _, e := range lit.Elts {
		if _, ok := e.(*ast.KeyValueExpr); !ok {
			return false
		}
	}
	return true
}

// resolveFree strips loads so that a call through a captured variable resolves
// to its FreeVar.
func resolveFree(v ssa.Value) ssa.Value {
	for i := 0; i < 6; i++ {
		switch x := v.(type) {
		case *ssa.UnOp:
			if x.Op == token.MUL {
				v = x.X
				continue
			}
		case *ssa.ChangeType:
			v = x.X
			continue
		}
		break
	}
	return v
}

// sameRootCell: closure binding `bound` and value root `mroot` denote the same
// variable: identical values, or the binding is the cell (Alloc) mroot is loaded from.
func sameRootCell(bound, mroot ssa.Value) bool {
	if bound == mroot {
		return true
	}
	r := resolveFree(mroot)
	if r == bound {
		return true
	}
	if u, ok := mroot.(*ssa.UnOp); ok && u.X == bound {
		return true
	}
	// both are loads/values of the same range element
	return resolveVal(bound) == resolveVal(mroot)
}

// expiredWhenTrue: for recognised comparison forms, reports whether cond==true
// means "the session is expired".
func expiredWhenTrue(cond ssa.Value) (expired bool, known bool) {
	return expiredWhenTrueF(cond, "ExpiresAt")
}

func expiredWhenTrueF(cond ssa.Value, field string) (expired bool, known bool) {
	return expiredWhenTrueEnv(cond, field, nil)
}

// expiredWhenTrueEnv: env binds the parameters of a predicate helper to the arguments it was called with
// (sess.expiredAt(now) with now := time.Now() in the caller).
func expiredWhenTrueEnv(cond ssa.Value, field string, env map[*ssa.Parameter]ssa.Value) (expired bool, known bool) {
	v, positive := stripNot(cond)
	isExpiry := func(x ssa.Value) bool {
		return derivesFrom(x, func(y ssa.Value) bool {
			fv, _, ok := fieldOf(y)
			return ok && fname(fv) == field
		})
	}
	var isNow func(x ssa.Value) bool
	isNow = func(x ssa.Value) bool {
		return derivesFrom(x, func(y ssa.Value) bool {
			if prm, isP := y.(*ssa.Parameter); isP && env != nil && env[prm] != nil {
				a := env[prm]
				if _, again := a.(*ssa.Parameter); !again {
					return isNow(a)
				}
				return false
			}
			if fvar, isFV := y.(*ssa.FreeVar); isFV {
				// an instant taken once before a loop whose body is a literal (range over a func iterator) and captured
				if b := freeVarBinding(fvar); b != nil {
					for _, st := range storesTo(b) {
						if !isNow(st.Val) {
							return false
						}
					}
					return len(storesTo(b)) > 0
				}
				return false
			}
			c, ok := y.(*ssa.Call)
			return ok && calleeName(c) == "time.Now"
		})
	}
	switch x := v.(type) {
	case *ssa.Call:
		n := calleeName(x)
		args := callArgs(x)
		// a same-package predicate that is nothing but such a comparison (metaExpired(meta))
		if h := helperBody(x); h != nil && h.Signature.Results().Len() == 1 && isBoolType(h.Signature.Results().At(0).Type()) {
			var only *ssa.Return
			nr := 0
			eachInstr(h, func(in ssa.Instruction) {
				if ret, ok := in.(*ssa.Return); ok && !isRecoverReturn(ret) {
					only = ret
					nr++
				}
			})
			if nr == 1 && len(only.Results) == 1 {
				henv := map[*ssa.Parameter]ssa.Value{}
				for i, prm := range h.Params {
					if i < len(args) {
						henv[prm] = args[i]
					}
				}
				if e, k := expiredWhenTrueEnv(only.Results[0], field, henv); k {
					if positive {
						return e, true
					}
					return !e, true
				}
			}
			return false, false
		}
		if len(args) != 2 {
			return false, false
		}
		recvExp, argExp := isExpiry(args[0]) && !isNow(args[0]), isExpiry(args[1]) && !isNow(args[1])
		switch n {
		case "(time.Time).After":
			if recvExp && isNow(args[1]) { // ExpiresAt.After(now): not expired
				return !positive, true
			}
			if argExp && isNow(args[0]) { // now.After(ExpiresAt): expired
				return positive, true
			}
		case "(time.Time).Before":
			if recvExp && isNow(args[1]) { // ExpiresAt.Before(now): expired
				return positive, true
			}
			if argExp && isNow(args[0]) { // now.Before(ExpiresAt): not expired
				return !positive, true
			}
		}
	case *ssa.BinOp:
		// time.Until(ExpiresAt) <= 0 / < 0 ; time.Since(ExpiresAt) >= 0 / > 0
		cv, okc := constInt(x.Y)
		call, isCall := x.X.(*ssa.Call)
		// with a margin: time.Until(ExpiresAt) < K for K >= 0 (expired, or about to be), time.Since(ExpiresAt) > -K
		if okc && isCall && len(call.Call.Args) == 1 && isExpiry(call.Call.Args[0]) && ((calleeName(call) == "time.Until" && cv >= 0) || (calleeName(call) == "time.Since" && cv <= 0)) {
			switch calleeName(call) {
			case "time.Until":
				if x.Op == token.LEQ || x.Op == token.LSS {
					return positive, true
				}
				if x.Op == token.GTR || x.Op == token.GEQ {
					return !positive, true
				}
			case "time.Since":
				if x.Op == token.GEQ || x.Op == token.GTR {
					return positive, true
				}
				if x.Op == token.LSS || x.Op == token.LEQ {
					return !positive, true
				}
			}
		}
	}
	return false, false
}
