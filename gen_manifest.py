#!/usr/bin/env python3
# Generates MANIFEST.json from the table below (keeps it schema-valid).
import json, sys
CLAIMS = json.load(open('claims.json'))
props = [json.loads(l) for l in open('properties.jsonl')]
checks, na = [], []
for p in props:
    pid = p['id']
    c = CLAIMS.get(pid)
    if not c or c.get('na'):
        na.append({"property_id": pid, "reason": (c or {}).get('na', 'static rules for this property are not built yet (work in progress); see DESIGN.md §4')})
        continue
    checks.append({
        "property_id": pid,
        "quick_cmd": f"./run.sh {pid} quick",
        "thorough_cmd": f"./run.sh {pid} thorough",
        "evidence_file": f"evidence/{pid}.json",
        "replay_cmd_template": f"./run.sh {pid} quick   # deterministic; report at {{path}}",
        "engine": "checker",
        "level_claimed": {"category": "other", "text": c['text'], "design_ref": f"DESIGN.md §4 {pid}"},
        "level_note": c['note'],
        "technique": c['technique'],
    })
m = {
  "version": 1,
  "setup_cmd": "./setup.sh",
  "hooks": {
    "guard": "verif",
    "enable": "none needed: static analysis executes no reservoir code; there are no hooks in /repo",
    "baseline_off_cmd": "cd /repo && PATH=/opt/veriftools/go1.26.8/bin:$PATH GOTOOLCHAIN=local GOFLAGS=-mod=mod GOPROXY=off go test -vet=off -count=1 ./...",
    "source_commits": [],
    "add_only": True
  },
  "engines": [{"name": "checker", "path": "checker/", "serves_properties": [c['property_id'] for c in checks],
               "kind_free_text": "repository-specific static analyser: go/packages + go/ssa (generics instantiated) + CHA/VTA call graph; path (dominance / must-pass-through), lock-set, effect, provenance and table rules per property"}],
  "checks": checks,
  "not_applicable": na,
  "notes": "All claims are level 'other': structural necessary conditions of each behavioural property decided on every path / site of /repo's current source; the behavioural statements over run-time values, timings and schedules themselves are not decided (DESIGN.md §7)."
}
json.dump(m, open('MANIFEST.json','w'), indent=1)
print(len(checks), "claimed;", len(na), "not applicable")
